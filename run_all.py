#!/venv/bin/python
"""run_all.py [--tier quick|thorough] [--seeds 1,2,3] [Cxx ...]: run the registered checks one after the other and summarise"""
import argparse, json, os, subprocess, sys, time
HERE = os.path.dirname(os.path.abspath(__file__))
ap = argparse.ArgumentParser()
ap.add_argument("--tier", default="quick")
ap.add_argument("--seeds", default=os.environ.get("VERIF_SEED", "1"))
ap.add_argument("props", nargs="*")
a = ap.parse_args()
m = json.load(open(os.path.join(HERE, "MANIFEST.json")))
bad = 0
for seed in a.seeds.split(","):
    for c in m["checks"]:
        pid = c["property_id"]
        if a.props and pid not in a.props:
            continue
        t = time.time()
        env = dict(os.environ, VERIF_SEED=seed)
        r = subprocess.run(c["quick_cmd"] if a.tier == "quick" else c["thorough_cmd"], shell=True, cwd=HERE, env=env, capture_output=True, text=True)
        last = (r.stdout.strip().splitlines() or ["<no output>"])[-1]
        vio = [ln for ln in r.stdout.splitlines() if ln.startswith("VIOLATION")]
        print(f"{pid} seed={seed} exit={r.returncode} {time.time() - t:5.1f}s  {last[:160]}")
        for v in vio[:3]:
            print("   ", v[:200])
        if r.returncode != 0:
            bad += 1
            if r.returncode == 2:
                print(r.stdout[-1500:], r.stderr[-1500:])
sys.exit(1 if bad else 0)
