"""Drivers for the code under test: TLExport from /repo's working tree, in-process or as a subprocess."""
import contextlib
import io
import logging
import os
import subprocess
import sys
import traceback

REPO = os.environ.get("TLEXPORT_ROOT", "/repo")    # override exists only for sensitivity experiments (never set by the manifest)
GUARD = "FKIE_CAD_TLEXPORT_VERIF"
os.environ.setdefault(GUARD, "1")
if REPO not in sys.path:
    sys.path.insert(0, REPO)

_main = None


def tlx_main():
    global _main
    if _main is None:
        import tlexport.main as m
        if not os.path.abspath(m.__file__).startswith(os.path.abspath(REPO)):
            raise RuntimeError(f"tlexport imported from {m.__file__}, expected {REPO}")
        _main = m
    return _main


def reset_state():
    """what a fresh process would give: module-level containers of tlexport.main emptied, logging handlers removed"""
    m = tlx_main()
    m.server_ports[:] = [443, 44330]
    m.keylog.clear()
    m.sessions.clear()
    m.quic_sessions.clear()
    root = logging.getLogger()
    for h in root.handlers[:]:
        root.removeHandler(h)
    root.filters.clear()


class RunResult:
    __slots__ = ("code", "stdout", "stderr", "exc", "exc_sig")

    def __repr__(self):
        return f"<run code={self.code} exc={self.exc_sig}>"


def _sig_from_tb(etype, tb):
    """(exception type, innermost frame inside tlexport: file:function)"""
    inner = None
    for fr in traceback.extract_tb(tb):
        if "/tlexport/" in fr.filename:
            inner = f"{os.path.basename(fr.filename)}:{fr.name}"
    return f"{etype.__name__}@{inner}"


def run_inproc(argv, cwd=None, reset=True):
    m = tlx_main()
    if reset:
        reset_state()
    old_argv = sys.argv
    sys.argv = ["tlexport"] + list(argv)
    so, se = io.StringIO(), io.StringIO()
    r = RunResult()
    r.code, r.exc, r.exc_sig = 0, None, None
    old_cwd = os.getcwd()
    try:
        if cwd:
            os.chdir(cwd)
        with contextlib.redirect_stdout(so), contextlib.redirect_stderr(se):
            try:
                m.run()
            except SystemExit as e:
                r.code = e.code if isinstance(e.code, int) else (0 if e.code is None else 1)
            except BaseException as e:  # noqa: the run aborted with a traceback
                r.code = 1
                r.exc = traceback.format_exc()
                r.exc_sig = _sig_from_tb(type(e), e.__traceback__)
    finally:
        sys.argv = old_argv
        os.chdir(old_cwd)
    r.stdout, r.stderr = so.getvalue(), se.getvalue()
    return r


def run_subprocess(argv, cwd=None, env=None, hashseed="0", timeout=900, cpus=None):
    e = dict(os.environ)
    e["PYTHONPATH"] = REPO
    e["PYTHONHASHSEED"] = str(hashseed)
    if env:
        e.update(env)
    pre = None
    if cpus:
        # the process may use only `cpus` of the CPUs this one may use (taskset / a container's cpuset)
        mine = sorted(os.sched_getaffinity(0))
        k = os.getpid() % len(mine)            # (which ones does not matter; spread the harness's workers over all of them)
        allowed = (mine[k:] + mine[:k])[:cpus]
        pre = lambda: os.sched_setaffinity(0, set(allowed))       # noqa: E731
    p = subprocess.run([sys.executable, "-m", "tlexport.main"] + list(argv), cwd=cwd or REPO, env=e, capture_output=True, text=True,
                       timeout=timeout, preexec_fn=pre)
    r = RunResult()
    r.code, r.stdout, r.stderr = p.returncode, p.stdout, p.stderr
    r.exc = p.stderr if "Traceback (most recent call last)" in p.stderr else None
    r.exc_sig = None
    if r.exc:
        last = [ln for ln in p.stderr.strip().splitlines() if ln and not ln.startswith(" ")][-1]
        frames = [ln for ln in p.stderr.splitlines() if "/tlexport/" in ln and ln.strip().startswith("File")]
        inner = frames[-1].split('"')[1].rsplit("/", 1)[-1] + ":" + frames[-1].rsplit(" in ", 1)[-1] if frames else None
        r.exc_sig = f"{last.split(':')[0].split('.')[-1]}@{inner}"
    return r

logging.disable(logging.CRITICAL)   # TLExport's log output is irrelevant to the oracles and only costs time
