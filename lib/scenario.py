"""Scenario specs (plain JSON data) -> capture file + key log + ground truth.

A scenario is a dict
    {"conns": [conn spec, ...], "order": [ints] | None, "tseed": int, "t0": int (us), "times": None | "zero" | "zero_all" | "disorder" | "long_gaps", "container": {...}, "keys": {...}, "opts": {...}}
conn spec kinds: "tls" (tlsref.TlsConn + "ep" + "tcp"), "quic" (quicref.QuicConn + "ep"), "noise".
Everything random is derived from integers that are part of the spec, so a spec replays exactly.
"""
import os
import random
import struct

import netio
import tlsref
import quicref

T0 = 1_700_000_000_000_000


# ------------------------------------------------------------------ endpoints
def default_ep(i=0, v6=False, sport=443, cport=None):
    ep = {"v6": bool(v6), "cmac": "0200000001%02x" % (i + 1), "smac": "0200000002%02x" % (i + 1), "cport": cport or 40000 + i, "sport": sport}
    if v6:
        ep["cip"], ep["sip"] = f"2001:db8::{i + 1:x}", f"2001:db8:1::{i + 1:x}"
    else:
        ep["cip"], ep["sip"] = f"10.0.0.{i + 1}", f"192.168.1.{i + 1}"
    return ep


class LPkt:
    """logical packet: rendered to a frame late so that faults can edit it"""
    __slots__ = ("conn", "proto", "srv", "seq", "ack", "flags", "payload", "ep", "bad_csum", "rec_span", "tag", "raw", "steer", "ts")

    def __init__(self, conn, proto, srv, payload, ep, seq=0, ack=0, flags=0x18, tag=""):
        self.conn, self.proto, self.srv, self.payload, self.ep = conn, proto, srv, payload, ep
        self.seq, self.ack, self.flags, self.tag = seq, ack, flags, tag
        self.bad_csum = False
        self.rec_span = None
        self.raw = None
        self.steer = None
        self.ts = None

    def copy(self):
        q = LPkt(self.conn, self.proto, self.srv, self.payload, self.ep, self.seq, self.ack, self.flags, self.tag)
        q.bad_csum, q.rec_span, q.raw, q.steer, q.ts = self.bad_csum, self.rec_span, self.raw, self.steer, self.ts
        return q

    def render(self):
        if self.raw is not None:
            return self.raw
        ep = self.ep
        cm, sm = bytes.fromhex(ep["cmac"]), bytes.fromhex(ep["smac"])
        if self.srv:
            a = (sm, cm, ep["sip"], ep["cip"], ep["sport"], ep["cport"])
        else:
            a = (cm, sm, ep["cip"], ep["sip"], ep["cport"], ep["sport"])
        if self.proto == "tcp":
            return netio.tcp_frame(*a, self.seq, self.ack, self.flags, self.payload, bad_csum=self.bad_csum, steer=self.steer, wire=ep.get("wire"))
        return netio.udp_frame(*a, self.payload, bad_csum=self.bad_csum, wire=ep.get("wire"))


# ------------------------------------------------------------------ TLS connection -> logical packets
DEFAULT_TCP = dict(isn_c=1000, isn_s=5000, syn=True, acks=False, mode="rec", mss=1400, cuts=[[], []], dups=[], moves=[], redups=[])


def _forced_cuts(conn):
    """stream offsets (per direction) at which a handshake-phase change of direction happens: a causal capture never has a
    segment spanning them"""
    forced = {False: set(), True: set()}
    off = {False: 0, True: 0}
    ev = conn.events
    for i, (srv, data, tag) in enumerate(ev):
        if tag == "ALERT" and i > conn.hs_last:
            # a closing alert travels in a segment of its own: everything sent before it is captured before it ("data after an alert" is
            # not claimed, and in a capture that means data CAPTURED after the alert)
            forced[srv].add(off[srv])
        off[srv] += len(data)
        if i <= conn.hs_last and i + 1 < len(ev) and ev[i + 1][0] != srv:
            forced[srv].add(off[srv])
        if i == conn.hs_last:
            forced[srv].add(off[srv])
    return forced


def tls_segments(conn, tcp):
    """-> ordered list of dicts {srv, off, data}; a segment is captured when its last byte has been produced"""
    mode, mss = tcp["mode"], max(1, tcp["mss"])
    ev = conn.events
    total = {False: sum(len(d) for s, d, _ in ev if not s), True: sum(len(d) for s, d, _ in ev if s)}
    cuts = {False: set(), True: set()}
    forced = _forced_cuts(conn)
    if mode == "rec":
        off = {False: 0, True: 0}
        for srv, data, _ in ev:
            off[srv] += len(data)
            cuts[srv].add(off[srv])
    elif mode == "flight":
        off = {False: 0, True: 0}
        for i, (srv, data, _) in enumerate(ev):
            off[srv] += len(data)
            if i + 1 == len(ev) or ev[i + 1][0] != srv:
                cuts[srv].add(off[srv])
    elif mode == "bytes":
        for srv in (False, True):
            cuts[srv] = set(range(1, total[srv] + 1))
    elif mode == "cuts":
        for srv in (False, True):
            if total[srv] > 1:
                for c in tcp["cuts"][int(srv)]:
                    cuts[srv].add(1 + c % (total[srv] - 1) if c >= 0 else total[srv])
    elif mode == "abs":   # absolute offsets, used by exhaustive enumerations
        for srv in (False, True):
            cuts[srv] = {c for c in tcp["cuts"][int(srv)] if 0 < c < total[srv]}
    for srv in (False, True):
        cuts[srv] |= forced[srv]
        cuts[srv].add(total[srv])
        # mss
        cs = sorted(c for c in cuts[srv] if c > 0)
        prev = 0
        extra = set()
        for c in cs:
            while c - prev > mss:
                prev += mss
                extra.add(prev)
            prev = c
        cuts[srv] |= extra
    out = []
    stream = {False: bytearray(), True: bytearray()}
    sent = {False: 0, True: 0}
    cl = {k: sorted(c for c in v if c > 0) for k, v in cuts.items()}
    for srv, data, _ in ev:
        stream[srv] += data
        while cl[srv] and cl[srv][0] <= len(stream[srv]):
            c = cl[srv].pop(0)
            if c > sent[srv]:
                out.append({"srv": srv, "off": sent[srv], "data": bytes(stream[srv][sent[srv]:c])})
                sent[srv] = c
    return out


def record_spans(conn):
    """[(srv, start, end, tag, truth_index)] byte span of every record in its direction's stream"""
    off = {False: 0, True: 0}
    out = []
    for i, (srv, data, tag) in enumerate(conn.events):
        out.append((srv, off[srv], off[srv] + len(data), tag, conn.rec_index[i]))
        off[srv] += len(data)
    return out


def tls_packets(ci, conn, ep, tcp):
    t = dict(DEFAULT_TCP)
    t.update(tcp or {})
    segs = tls_segments(conn, t)
    # duplicates: [i, j] -> an exact copy of segment i is re-delivered j+1 positions later
    order = list(range(len(segs)))
    seq_items = [("seg", i) for i in order]
    for i, j in t["dups"]:
        if not segs:
            break
        i %= len(segs)
        pos = min(len(seq_items), [k for k, it in enumerate(seq_items) if it == ("seg", i)][0] + 1 + j)
        seq_items.insert(pos, ("dup", i))
    # moves: [i, d] -> segment i is captured d places later among the segments of ITS direction (application phase only,
    # or inside one handshake flight): implemented by swapping with following same-direction segments, never crossing a
    # forced cut of the other direction (causality)
    hs_end = _hs_end_offsets(conn)
    nseg = len(segs)          # the original segments (coalescing retransmissions are appended behind them, after the moves)
    first_rec_end = len(conn.events[0][1]) if conn.events and not conn.events[0][0] else 0
    excluded = 0
    for i, d in t["moves"]:
        if not segs:
            break
        i %= nseg
        k = [k for k, it in enumerate(seq_items) if it == ("seg", i)][0]
        srv = segs[i]["srv"]
        saved_items = list(seq_items)
        for _ in range(d):
            nxt = [m for m in range(k + 1, len(seq_items)) if segs[seq_items[m][1]]["srv"] == srv]
            if not nxt:
                break
            m = nxt[0]
            # causal: do not carry a handshake-phase segment across packets of the other direction
            if segs[i]["off"] < hs_end[srv] and any(segs[seq_items[x][1]]["srv"] != srv for x in range(k + 1, m)):
                break
            if segs[seq_items[m][1]]["off"] < hs_end[srv] and any(segs[seq_items[x][1]]["srv"] != srv for x in range(k + 1, m)):
                break
            it = seq_items.pop(k)
            seq_items.insert(m, it)
            k = m
        if not t.get("allow_first_record_moves") and not srv and first_rec_end and _f05r_risk(seq_items, segs):
            # open finding F05r (see known_findings.json): a part of the client's first record that is captured before the beginning of
            # that record and by itself frames as complete TLS records; every other reordering inside the ClientHello is generated
            seq_items[:] = saved_items
            excluded += 1
    # coalescing retransmissions: [i, n, j] -> the data of segment i and the next n segments of its direction is sent again as ONE segment
    # (same sequence number as segment i, longer payload), captured j+1 positions after the last of them - only data already captured
    for i, n, j in t.get("redups", []):
        if not segs:
            break
        i %= nseg
        srv = segs[i]["srv"]
        run = [i]
        k = i + 1
        while len(run) <= n and k < nseg:
            if segs[k]["srv"] == srv:
                if segs[k]["off"] != segs[run[-1]]["off"] + len(segs[run[-1]]["data"]):
                    break
                run.append(k)
            k += 1
        if len(run) < 2:
            continue
        last_pos = max(p_ for p_, it in enumerate(seq_items) if it[0] == "seg" and it[1] in run)
        segs.append({"srv": srv, "off": segs[i]["off"], "data": b"".join(segs[x]["data"] for x in run), "redup": True})
        seq_items.insert(min(len(seq_items), last_pos + 1 + j), ("dup", len(segs) - 1))
    pk = []
    def isn(v, srv):
        """an ISN, or ["zero_at", k]: the value that puts the start of the k-th segment (mod n) of that direction at sequence number 0"""
        if isinstance(v, (list, tuple)):
            mine = [s_ for s_ in segs if s_["srv"] == srv]
            a = mine[v[1] % len(mine)]["off"] if mine else 0
            return (-1 - a) & 0xFFFFFFFF
        return v & 0xFFFFFFFF
    ic, is_ = isn(t["isn_c"], False), isn(t["isn_s"], True)
    if t["syn"]:
        pk.append(LPkt(ci, "tcp", False, b"", ep, ic, 0, 0x02, "SYN"))
        pk.append(LPkt(ci, "tcp", True, b"", ep, is_, ic + 1, 0x12, "SYNACK"))
        pk.append(LPkt(ci, "tcp", False, b"", ep, ic + 1, is_ + 1, 0x10, "ACK"))
    seen = {False: 0, True: 0}          # contiguously received prefix per direction: what a receiver acknowledges
    ivs = {False: [], True: []}
    for kind, i in seq_items:
        s = segs[i]
        srv = s["srv"]
        base, peer = (is_, ic) if srv else (ic, is_)
        ackv = seen[not srv]
        if t.get("ack_model") == "wire" and i < nseg and s["off"] >= hs_end[srv]:
            # acknowledgement numbers as the sender put them on the wire (capture near the sender, or packets reordered by the capture
            # itself): what the peer had sent before this segment in the ORIGINAL order - a displaced segment may then be acknowledged
            # by a packet that is captured before it.  Default: what a receiver at the capture point has seen contiguously
            ackv = max(ackv, sum(len(x["data"]) for x in segs[:i] if x["srv"] != srv and not x.get("redup")))
        p = LPkt(ci, "tcp", srv, s["data"], ep, (base + 1 + s["off"]) & 0xFFFFFFFF, (peer + 1 + ackv) & 0xFFFFFFFF, 0x18,
                 "dup" if kind == "dup" else "seg")
        p.rec_span = (s["off"], s["off"] + len(s["data"]))
        ivs[srv].append(p.rec_span)
        moved = True
        while moved:
            moved = False
            for a, e in ivs[srv]:
                if a <= seen[srv] < e:
                    seen[srv] = e
                    moved = True
        pk.append(p)
        if t["acks"]:
            pk.append(LPkt(ci, "tcp", not srv, b"", ep, (peer + 1 + seen[not srv]) & 0xFFFFFFFF, (base + 1 + seen[srv]) & 0xFFFFFFFF, 0x10, "ack"))
    # how the connection ends on the TCP level: 0 nothing, 1 FIN / FIN-ACK / ACK packets without data, 2 the FIN rides on the last data
    # segment of each direction, 3 the client resets the connection
    fin = t.get("fin", 0)
    tot = {d: sum(len(x["data"]) for x in segs if x["srv"] == d and not x.get("redup")) for d in (False, True)}
    nxt = {False: (ic + 1 + tot[False]) & 0xFFFFFFFF, True: (is_ + 1 + tot[True]) & 0xFFFFFFFF}
    if fin == 2:
        for d in (False, True):
            last = next((p for p in reversed(pk) if p.proto == "tcp" and p.srv == d and p.payload and p.tag == "seg" and
                         p.rec_span and p.rec_span[1] == tot[d]), None)
            if last is not None:
                last.flags |= 0x01
    elif fin == 1:
        pk.append(LPkt(ci, "tcp", False, b"", ep, nxt[False], nxt[True], 0x11, "FIN"))
        pk.append(LPkt(ci, "tcp", True, b"", ep, nxt[True], (nxt[False] + 1) & 0xFFFFFFFF, 0x11, "FIN"))
        pk.append(LPkt(ci, "tcp", False, b"", ep, (nxt[False] + 1) & 0xFFFFFFFF, (nxt[True] + 1) & 0xFFFFFFFF, 0x10, "ack"))
    elif fin == 3:
        pk.append(LPkt(ci, "tcp", False, b"", ep, nxt[False], nxt[True], 0x14, "RST"))
    tls_packets.excluded = getattr(tls_packets, 'excluded', 0) + excluded
    return pk, segs


def _frames_as_records(data):
    """the record framing loop of a reassembler that starts at data[0]: True iff the length fields chain exactly to the end"""
    idx, n = 0, len(data)
    if not n:
        return False
    while True:
        if n - idx == 0:
            return True
        if n - idx < 5:
            return False
        idx += int.from_bytes(data[idx + 3:idx + 5], "big") + 5


def _f05r_risk(seq_items, segs):
    """client segments captured before the segment at stream offset 0: does the contiguous run from the lowest of them frame as records
    at any moment?"""
    arrived = []
    for _, i in seq_items:
        sg = segs[i]
        if sg["srv"]:
            continue
        if sg["off"] == 0:
            return False
        arrived.append(sg)
        run = sorted(arrived, key=lambda x: x["off"])
        data, expect = b"", run[0]["off"]
        for x in run:
            if x["off"] > expect:
                break
            data += x["data"][max(0, expect - x["off"]):]
            expect = max(expect, x["off"] + len(x["data"]))
        if _frames_as_records(data):
            return True
    return False


def _hs_end_offsets(conn):
    off = {False: 0, True: 0}
    end = {False: 0, True: 0}
    for i, (srv, data, _) in enumerate(conn.events):
        off[srv] += len(data)
        if i <= conn.hs_last:
            end[srv] = off[srv]
    return end


# ------------------------------------------------------------------ noise
def noise_packets(ci, spec):
    """spec: {"kind":"noise", "what": "http"|"tcp_other"|"dns"|"udp_rand"|"arp"|"udp_quicish", "seed", "n", "ep"}"""
    rnd = random.Random(spec.get("seed", 0))
    ep = spec["ep"]
    what = spec["what"]
    out = []
    n = spec.get("n", 3)
    if what in ("http", "tcp_other"):
        cs, ss = 100, 200
        for i in range(n):
            req = b"GET /%d HTTP/1.1\r\nHost: example\r\n\r\n" % i + rbytes(rnd, rnd.randrange(0, 40))
            out.append(LPkt(ci, "tcp", False, req, ep, cs, ss, 0x18, "noise"))
            cs += len(req)
            rsp = b"HTTP/1.1 200 OK\r\nContent-Length: 5\r\n\r\nhello" + rbytes(rnd, rnd.randrange(0, 60))
            out.append(LPkt(ci, "tcp", True, rsp, ep, ss, cs, 0x18, "noise"))
            ss += len(rsp)
    elif what == "dns":
        for i in range(n):
            q = struct.pack("!HHHHHH", rnd.getrandbits(16), 0x0100, 1, 0, 0, 0) + b"\x07example\x03com\x00\x00\x01\x00\x01"
            out.append(LPkt(ci, "udp", False, q, ep, tag="noise"))
            out.append(LPkt(ci, "udp", True, q[:2] + b"\x81\x80" + q[4:] + rbytes(rnd, 16), ep, tag="noise"))
    elif what == "udp_rand":
        for i in range(n):
            out.append(LPkt(ci, "udp", bool(rnd.getrandbits(1)), rbytes(rnd, rnd.randrange(1, 200)), ep, tag="noise"))
    elif what == "udp_quicish":
        for i in range(n):
            b = bytearray(rbytes(rnd, rnd.randrange(24, 120)))
            b[0] = (b[0] | 0x40) & 0x7F      # fixed bit set, short header shape
            out.append(LPkt(ci, "udp", bool(rnd.getrandbits(1)), bytes(b), ep, tag="noise"))
    elif what == "udp_struct":
        # datagrams shaped like QUIC headers (or not at all), to any port
        for i in range(n):
            shape = spec.get("shapes", ["rand", "long", "short", "vn", "tiny", "long_trunc"])[i % len(spec.get("shapes", [0] * 6))]
            if shape == "rand":
                b = rbytes(rnd, rnd.randrange(1, 1500))
            elif shape == "tiny":
                b = bytes([rnd.choice([0xC0, 0xC3, 0x40, 0x80, 0xFF, 0x00, 0xE5])]) + rbytes(rnd, rnd.randrange(0, 6))
            elif shape == "long":
                dl, sl = rnd.choice([0, 1, 8, 20, 21, 255]), rnd.choice([0, 4, 8, 20, 200])
                ver = rnd.choice([b"\x00\x00\x00\x01", b"\x6b\x33\x43\xcf", b"\xff\x00\x00\x1d", rbytes(rnd, 4)])
                b = bytes([0xC0 | rnd.getrandbits(6)]) + ver + bytes([dl]) + rbytes(rnd, min(dl, 40)) + bytes([sl]) + rbytes(rnd, min(sl, 40)) + \
                    rbytes(rnd, rnd.randrange(0, 300))
            elif shape == "long_trunc":
                full = bytes([0xC0 | rnd.getrandbits(4)]) + b"\x00\x00\x00\x01\x08" + rbytes(rnd, 8) + b"\x08" + rbytes(rnd, 8) + b"\x00\x44\x00" + rbytes(rnd, 60)
                b = full[:rnd.randrange(1, len(full))]
            elif shape == "vn":
                b = bytes([0x80 | rnd.getrandbits(7)]) + b"\x00\x00\x00\x00" + bytes([8]) + rbytes(rnd, 8) + bytes([8]) + rbytes(rnd, 8) + \
                    rbytes(rnd, 4 * rnd.randrange(0, 4) + rnd.choice([0, 0, 1]))
            elif shape in ("short_cid", "long_cid") and spec.get("cids"):
                # a datagram of another flow that happens to carry a connection ID some connection of the capture uses (short connection
                # IDs coincide easily): short header + that ID + anything, or a long header addressed to it
                cid = bytes.fromhex(rnd.choice(spec["cids"]))
                if shape == "short_cid":
                    b = bytes([0x40 | rnd.getrandbits(6)]) + cid + rbytes(rnd, rnd.randrange(20, 120))
                else:
                    b = bytes([0xC0 | rnd.getrandbits(6)]) + b"\x00\x00\x00\x01" + bytes([len(cid)]) + cid + bytes([4]) + rbytes(rnd, 4) + \
                        rbytes(rnd, rnd.randrange(30, 200))
            else:  # short
                b = bytes([0x40 | rnd.getrandbits(6)]) + rbytes(rnd, rnd.randrange(0, 200))
            out.append(LPkt(ci, "udp", bool(rnd.getrandbits(1)), b, ep, tag="noise"))
    elif what == "arp":
        for i in range(n):
            p = LPkt(ci, "raw", False, b"", ep, tag="noise")
            p.raw = bytes.fromhex(ep["smac"]) + bytes.fromhex(ep["cmac"]) + b"\x08\x06" + b"\x00\x01\x08\x00\x06\x04\x00\x01" + rbytes(rnd, 20)
            out.append(p)
    return out


def rbytes(rnd, n):
    return rnd.randbytes(n) if n else b""


# ------------------------------------------------------------------ whole scenario
class Built:
    pass


def build_conns(spec):
    """-> Built with .conns (reference objects), .per_conn (list of LPkt lists), .keylog (canonical list of lines)"""
    b = Built()
    b.spec = spec
    b.conns, b.per_conn, b.keylog, b.segs = [], [], [], []
    suites = tlsref.load_suites()
    for ci, cs in enumerate(spec["conns"]):
        k = cs.get("kind", "tls")
        ep = cs.get("ep") or default_ep(ci)
        if k == "tls":
            c = tlsref.TlsConn(cs, suites)
            pk, segs = tls_packets(ci, c, ep, cs.get("tcp"))
            b.keylog += c.keylog
        elif k == "quic":
            c = quicref.QuicConn(cs)
            # a client that changed its network path sends from (and is answered at) another port
            eps = {0: ep}
            for pth in set(getattr(c, "paths", []) or [0]):
                if pth:
                    eps[pth] = dict(ep, cport=1024 + (ep["cport"] - 1024 + 977 * pth) % 64000)
            pths = getattr(c, "paths", None) or [0] * len(c.datagrams)
            pk = [LPkt(ci, "udp", srv, data, eps[pth], tag="quic") for (srv, data, _), pth in zip(c.datagrams, pths)]
            for p, (_, _, chunks) in zip(pk, c.datagrams):
                p.rec_span = chunks
            segs = None
            b.keylog += c.keylog
        else:
            c = None
            pk = noise_packets(ci, cs)
            segs = None
        b.conns.append(c)
        b.per_conn.append(pk)
        b.segs.append(segs)
    return b


def merge_packets(per_conn, order):
    """order-preserving merge: step k takes the next packet of active connection order[k % len] % n_active"""
    idx = [0] * len(per_conn)
    out = []
    k = 0
    while True:
        active = [i for i in range(len(per_conn)) if idx[i] < len(per_conn[i])]
        if not active:
            break
        if order:
            i = active[order[k % len(order)] % len(active)]
        else:
            i = active[0]
        out.append(per_conn[i][idx[i]])
        idx[i] += 1
        k += 1
    return out


def assign_times(pkts, tseed=0, t0=T0, times=None):
    """capture times: strictly increasing from an epoch value (default); times = "zero": relative times, the first packet at exactly 0;
    "zero_all": a capture with stripped times (every packet at 0); "disorder": file order is not time order - some packets carry a time
    slightly before that of an earlier packet (several interfaces / merged captures), all times still distinct"""
    rnd = random.Random(tseed)
    t = t0 + rnd.randrange(0, 1_000_000)
    if times in ("zero", "zero_all"):
        t = 0
    for p in pkts:
        p.ts = t
        if times != "zero_all":
            t += rnd.randrange(2, 4000) if tseed else 1000
            if times == "long_gaps" and rnd.randrange(5) == 0:
                t += rnd.choice([3_600_000_000, 7_300_000_000, 90_000_000_000, 700_000_000_000])      # idle for 1 h .. 8 days
    if times == "disorder" and len(pkts) > 2:
        r2 = random.Random(tseed * 7919 + 13)
        used = {p.ts for p in pkts}
        for i in range(2, len(pkts)):
            if r2.randrange(4) == 0:
                j = r2.randrange(1, i)
                cand = pkts[j].ts - 1
                if cand not in used:
                    used.add(cand)
                    pkts[i].ts = cand
    return pkts


def build(spec):
    b = build_conns(spec)
    b.pkts = assign_times(merge_packets(b.per_conn, spec.get("order")), spec.get("tseed", 0), spec.get("t0", T0), spec.get("times"))
    return b


# ------------------------------------------------------------------ writing the capture + key material
DEFAULT_CONTAINER = dict(fmt="pcapng", endian="<", tsresol=6, tsoffset=0, extra=[], nano=False)
DEFAULT_KEYS = dict(file=True, dsb=[], seed=0, shuffle=False, crlf=False, comments=0, blanks=0, unrelated=0, dup=0, upper="none",
                    dsb_pos="first")


def keylog_text(lines, k):
    """apply the decorations of key-delivery spec k to canonical lines -> text"""
    # (a string seed: the stream must be unrelated to the one a connection with the same integer seed draws its randoms from - the
    # unrelated lines would otherwise repeat that connection's client random with another secret)
    rnd = random.Random("keylog:%d" % k.get("seed", 0))
    ls = list(lines)
    if k.get("explicit") is not None and ls:     # exact order and multiplicity: indexes into the lines (every line at least once)
        ls = [ls[i % len(ls)] for i in k["explicit"]]
    for _ in range(k.get("dup", 0)):
        if ls:
            ls.insert(rnd.randrange(len(ls) + 1), rnd.choice(ls))
    for _ in range(k.get("unrelated", 0)):
        ls.insert(rnd.randrange(len(ls) + 1), rnd.choice(["EXPORTER_SECRET", "CLIENT_RANDOM", "SERVER_TRAFFIC_SECRET_0"]) + " " +
                  rnd.randbytes(32).hex() + " " + rnd.randbytes(48).hex())
    if k.get("shuffle"):
        rnd.shuffle(ls)
    up = k.get("upper", "none")
    if up != "none":
        o = []
        for ln in ls:
            lab, cr, sec = ln.split(" ")
            if up in ("cr", "both"):
                cr = cr.upper()
            if up in ("sec", "both"):
                sec = sec.upper()
            if up == "mixed":
                cr = "".join(ch.upper() if rnd.getrandbits(1) else ch for ch in cr)
                sec = "".join(ch.upper() if rnd.getrandbits(1) else ch for ch in sec)
            o.append(f"{lab} {cr} {sec}")
        ls = o
    for ci in range(k.get("comments", 0)):
        if k.get("comment_keys") and lines and ci % 2 == 0:
            # a commented-out entry: label and client random of a real line with a stale secret of the right length, in front of the
            # real lines ("#" + entry, with and without a blank)
            lab, cr, sec = lines[rnd.randrange(len(lines))].split(" ")
            ls.insert(0, ("# " if ci % 4 == 0 else "#") + f"{lab} {cr} {rnd.randbytes(len(sec) // 2).hex()}")
        else:
            ls.insert(rnd.randrange(len(ls) + 1), "# SSL/TLS secrets log file, generated by NSS")
    for _ in range(k.get("blanks", 0)):
        ls.insert(rnd.randrange(len(ls) + 1), "")
    nl = "\r\n" if k.get("crlf") else "\n"
    if k.get("straddle") and lines:
        # a long key log (browsers write megabytes): unrelated lines and a comment in front, sized so that byte offset mult * block of the
        # text lies j bytes into the chosen canonical line (readers that work in blocks see that line cut there)
        block, mult, which, j = k["straddle"]
        want = lines[which % len(lines)].split(" ")[1].lower()
        ti = next((i for i, ln in enumerate(ls) if len(ln.split(" ")) == 3 and ln.split(" ")[1].lower() == want and
                   ln.split(" ")[0] == lines[which % len(lines)].split(" ")[0]), None)
        if ti is not None:
            off = sum(len(x) + len(nl) for x in ls[:ti])
            j = j % (len(ls[ti]) + len(nl))
            need = block * mult - j - off
            while need < 8:
                need += block
            filler = []
            while need > 420:
                ln = "CLIENT_RANDOM " + rnd.randbytes(32).hex() + " " + rnd.randbytes(48).hex()
                filler.append(ln)
                need -= len(ln) + len(nl)
            filler.append("#" + "-" * (need - 1 - len(nl)))
            ls = filler + ls
    return nl.join(ls) + ("" if k.get("no_final_nl") else nl)


def write_capture(b, workdir, pkts=None, container=None, keys=None, name="in"):
    """-> (capture path, keylog path | None).  pkts default b.pkts."""
    c = dict(DEFAULT_CONTAINER)
    c.update(container if container is not None else b.spec.get("container") or {})
    k = dict(DEFAULT_KEYS)
    k.update(keys if keys is not None else b.spec.get("keys") or {})
    pkts = b.pkts if pkts is None else pkts
    items = [("pkt", p.ts, p.render()) for p in pkts]
    if c.get("spb") and c["fmt"] == "pcapng":       # [m, r]: every packet with index % m == r is stored as a Simple Packet Block
        m, r = c["spb"]
        items = [("spb", it[2]) if i % m == r % m else it for i, it in enumerate(items)]
    klpath = None
    if k["file"]:
        klpath = os.path.join(workdir, name + ".keys")
        lines = b.keylog if k.get("file_lines") is None else [b.keylog[i] for i in k["file_lines"] if i < len(b.keylog)]
        with open(klpath, "w", newline="") as f:
            f.write(keylog_text(lines, k))
    if c["fmt"] == "pcapng":
        # DSBs: k["dsb"] is a list of line-index lists; each becomes one block
        dsbs = []
        for j, sel in enumerate(k["dsb"]):
            lines = b.keylog if sel is None else [b.keylog[i] for i in sel if i < len(b.keylog)]
            kk = dict(k)
            kk["seed"] = k.get("seed", 0) + 17 * (j + 1)
            dsbs.append(("dsb", keylog_text(lines, kk).encode()))
        pre_idb = []
        if dsbs:
            # one placement for all blocks, or one per block: before the interface description block, first behind it, or anywhere
            # (positions derived from the seed; secrets of TLS connections may come anywhere, those of QUIC connections come in front)
            pos = k["dsb_pos"] if isinstance(k["dsb_pos"], list) else [k["dsb_pos"]] * len(dsbs)
            rnd = random.Random(k.get("seed", 0) + 99)
            front = [d for d, p_ in zip(dsbs, pos) if p_ == "first"]
            pre_idb = [d for d, p_ in zip(dsbs, pos) if p_ == "before_idb"]
            # an integer places the block directly in front of the packet with that index (largest index first, so that indexes stay valid)
            for d, p_ in sorted(((d, p_) for d, p_ in zip(dsbs, pos) if isinstance(p_, int)), key=lambda x: -x[1]):
                items.insert(min(p_, len(items)), d)
            for d, p_ in zip(dsbs, pos):
                if p_ not in ("first", "before_idb") and not isinstance(p_, int):
                    items.insert(rnd.randrange(len(items) + 1), d)
            items = front + items
        # unrelated blocks
        def other_block(btype, blen):
            body = bytes((7 * i + btype) & 0xFF for i in range(blen))
            if btype == 4:     # NRB: IPv4 name records up to about blen bytes, then the end-of-records record
                e = c["endian"]
                recs = b""
                kk = 0
                while len(recs) + 48 <= blen:
                    # IPv4 records with low and high address bytes, IPv6 records, one or two names per record
                    addr = [bytes([10, 0, (kk >> 8) & 0xFF, kk & 0xFF]), bytes([192, 168, 200 + kk % 50, 255 - kk % 100]),
                            bytes.fromhex("20010db8") + bytes([0xFE, kk & 0xFF]) * 6][kk % 3]
                    val = addr + b"host%05d.example" % (kk % 100000) + b"\x00" + (b"alias-%d\x00" % kk if kk % 4 == 3 else b"")
                    recs += struct.pack(e + "HH", 1 if len(addr) == 4 else 2, len(val)) + val + b"\x00" * (-len(val) % 4)
                    kk += 1
                body = recs + struct.pack(e + "HH", 0, 0)
            elif btype == 5:   # ISB: interface id + timestamp
                body = struct.pack(c["endian"] + "III", 0, 0, 0)
            return ("raw", btype, body)
        for pos, btype, blen in c["extra"]:
            items.insert(pos % (len(items) + 1), other_block(btype, blen))
        # interfaces on which nothing was captured, described anywhere behind the first one, with their own if_tsresol / if_tsoffset
        for pos, r_, o_ in c.get("idle_ifaces") or []:
            if c.get("ifaces", 1) == 1:
                items.insert(pos % (len(items) + 1), ("idb", r_, o_))
        # blocks that do not refer to an interface (name resolution, custom, unknown) may also precede the interface description block
        pre_idb = [other_block(bt, bl) for bt, bl in c.get("extra_pre") or []] + pre_idb
        path = os.path.join(workdir, name + ".pcapng")
        netio.write_pcapng(path, items, endian=c["endian"], tsresol=c["tsresol"], tsoffset=c["tsoffset"], offset_first=bool(c.get("offset_first")),
                           snaplen=c.get("snaplen", 0), pre_idb=pre_idb, ifaces=c.get("ifaces", 1), late_idb=bool(c.get("late_idb")), idle_first=c.get("idle_first"),
                           section_length=bool(c.get("section_length")), packet_blocks=c.get("packet_blocks"))
    else:
        path = os.path.join(workdir, name + ".pcap")
        netio.write_pcap(path, items, endian=c["endian"], nano=c["nano"])
    return path, klpath


def argv_for(spec, inpath, klpath, outpath, opts=None):
    o = dict(spec.get("opts") or {})
    if opts:
        o.update(opts)
    argv = ["-i", inpath, "-o", outpath]
    if klpath:
        argv += ["-s", klpath]
    if (spec.get("container") or {}).get("fmt") == "pcap" or o.get("l"):
        argv += ["-l"]
    if o.get("p"):
        if o.get("p_repeat"):
            for x in o["p"]:
                argv += ["-p", str(x)]
        else:
            argv += ["-p"] + [str(x) for x in o["p"]]
    if o.get("m") is not None:
        argv += ["-m"] + list(o["m"])
    if o.get("a"):
        argv += ["-a"]
    if o.get("c"):
        argv += ["-c"]
    if o.get("g"):
        argv += ["-g"]
    if o.get("d"):
        argv += ["-d"] + ([o["d"]] if o["d"] != "bare" else [])
    if o.get("f"):
        argv += ["-f"] + list(o["f"])
    return argv
