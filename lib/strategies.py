"""Hypothesis strategies for scenario specs.  Construction, not rejection: no filter()/assume()."""
from hypothesis import strategies as st

import tlsref
import scenario

BIG = 16384
_BY_VER, _BY_VER_KEEP = {}, []

SEED = st.integers(0, 2 ** 32 - 1)


def lengths(max_len, block=16):
    special = [0, 1, 2, block - 1, block, block + 1, 255, 256, 257, 1399, 1400, 1401]
    special = [x for x in special if x <= max_len]
    if max_len >= BIG:
        special += [BIG - 1, BIG]
    return st.one_of(st.sampled_from(special), st.integers(0, min(max_len, 64)), st.integers(0, max_len))


WIRE = st.sampled_from([None, None, None, None, {"tcpopt": 12}, {"tcpopt": 12, "pad": True}, {"vlan": 100, "tcpopt": 12}, {"pad": True}, {"tcpopt": 4},
                        {"ip4opt": 4, "ip6ext": 1}, {"ip4opt": 8, "ip6ext": 2, "tcpopt": 12, "pad": True}, {"vlan": 7, "ip6ext": 1}])


@st.composite
def endpoints(draw, idx=None, sports=(443,), v6=None):
    i = draw(st.integers(0, 200)) if idx is None else idx
    six = draw(st.booleans()) if v6 is None else v6
    ep = {"v6": six, "cmac": draw(st.binary(min_size=6, max_size=6)).hex(), "smac": draw(st.binary(min_size=6, max_size=6)).hex(),
          "sport": draw(st.sampled_from(list(sports)))}
    # the client port is never a server port (otherwise the roles are ambiguous by the tool's own rule)
    cp = draw(st.integers(1024, 65535))
    if cp in (443, 44330) or cp in sports:
        cp = 50000 + (cp % 1000)
    ep["cport"] = cp
    # what the frames look like on the wire besides the plain Ethernet / IP / TCP-UDP headers
    w = draw(WIRE)
    if w:
        ep["wire"] = w
    if six:
        ep["cip"] = "2001:db8:%x::%x" % (draw(st.integers(0, 0xFFFF)), i + 1)
        ep["sip"] = "2001:db8:%x:1::%x" % (draw(st.integers(0, 0xFFFF)), i + 1)
    else:
        ep["cip"] = "10.%d.%d.%d" % (draw(st.integers(0, 255)), draw(st.integers(0, 255)), 1 + i % 250)
        ep["sip"] = "192.168.%d.%d" % (draw(st.integers(0, 255)), 1 + i % 250)
    return ep


@st.composite
def tcp_delivery(draw, modes=("rec", "rec", "flight", "flight", "cuts", "cuts", "cuts", "cuts", "cuts", "bytes"), wrap=True, dups=False, moves=False, small=False):
    mode = draw(st.sampled_from(list(modes)))
    t = {"mode": mode, "mss": draw(st.sampled_from([1400, 1400, 536, 100, 9000, 16500])), "syn": draw(st.booleans()),
         "acks": draw(st.booleans()), "fin": draw(st.sampled_from([0, 0, 1, 2, 3]))}
    isn = st.one_of(st.integers(0, 2 ** 32 - 1), st.sampled_from([0, 1, 2 ** 31 - 1, 2 ** 31]), st.integers(1, 20000).map(lambda k: 2 ** 32 - k)) if wrap else st.integers(0, 2 ** 31)
    t["isn_c"], t["isn_s"] = draw(isn), draw(isn)
    if mode == "cuts":
        t["cuts"] = [draw(st.lists(st.integers(0, 40000), max_size=12)), draw(st.lists(st.integers(0, 40000), max_size=12))]
    if dups:
        t["dups"] = draw(st.lists(st.tuples(st.integers(0, 60), st.integers(0, 4)).map(list), max_size=4))
        t["redups"] = draw(st.lists(st.tuples(st.integers(0, 60), st.integers(1, 3), st.integers(0, 4)).map(list), max_size=2))
    if moves:
        t["moves"] = draw(st.lists(st.tuples(st.integers(0, 60), st.integers(1, 4)).map(list), max_size=3))
        t["ack_model"] = draw(st.sampled_from(["capture", "wire"]))
    return t


def history(max_records=12, max_len=2000, block=16, v13=False):
    pad = st.one_of(st.just(0), st.integers(0, 15 if not v13 else 64))
    rec = st.tuples(st.integers(0, 1), lengths(max_len, block), pad).map(list)
    if v13:
        rec = st.one_of(rec, rec, rec, rec, st.tuples(st.just(2), st.integers(20, 200), st.just(0)).map(list))
    else:
        # [2, ...] below TLS 1.3: a HelloRequest that the client ignores
        rec = st.one_of(rec, rec, rec, rec, rec, rec, rec, rec, st.tuples(st.just(2), st.just(0), st.just(0)).map(list))
    return st.lists(rec, min_size=0, max_size=max_records)


EXTRA_EXT_TYPES = [0xFF01, 0x0017, 0x0010, 0x0023, 0x0000, 0x000F, 0x000B, 0x7777, 0x0005]


@st.composite
def tls_conn(draw, combos=None, max_records=12, max_len=2000, delivery=None, ep=None, bytes_mode_limit=2500, shapes=True, close=True):
    suites = tlsref.load_suites()
    combos = combos or tlsref.all_combos()
    # version first (uniform), then a suite valid for it: the table has 5 TLS 1.3 entries among ~700 combinations
    by_ver = _BY_VER.get(id(combos))
    if by_ver is None:
        by_ver = {}
        for c in combos:
            by_ver.setdefault(c[1], []).append(c)
        _BY_VER[id(combos)] = by_ver
        _BY_VER_KEEP.append(combos)
    ver = draw(st.sampled_from(sorted(by_ver)))
    code, ver, etm = draw(st.sampled_from(by_ver[ver]))
    s = suites[code]
    spec = {"kind": "tls", "seed": draw(SEED), "version": ver, "suite": code, "etm": etm}
    if shapes:
        spec["sid_len"] = draw(st.sampled_from([0, 0, 32, 32, 1, 16, 31]))
        spec["abbreviated"] = draw(st.booleans()) if ver != tlsref.TLS13 else False
        spec["grouping"] = draw(st.integers(0, 15))
        spec["cert_len"] = draw(st.sampled_from([10, 300, 1200, 3000]))
        # the server's handshake flight as one byte stream cut into records of at most hs_frag bytes: messages fragmented across records
        # and records holding the end of one message and the start of the next (maximum fragment length 2^9..2^14, RFC 6066 / RFC 8449)
        spec["client_auth"] = draw(st.sampled_from([False, False, False, True]))
        spec["hs_frag"] = draw(st.sampled_from([0, 0, 0, 512, 700, 2048, 16384]))
        if spec["hs_frag"]:
            spec["cert_len"] = draw(st.sampled_from([300, 1200, 3000, 9000, 17000]))
        if draw(st.integers(0, 3)) == 0:
            # record boundaries at / inside the 4-byte header of a message, or a few bytes into its body
            spec["hs_cuts"] = draw(st.lists(st.tuples(st.integers(0, 5), st.sampled_from([0, 1, 2, 3, 4, 5, 9, 40])).map(list), min_size=1, max_size=3))
        if spec["hs_frag"] or spec.get("hs_cuts"):
            spec["hs_cont"] = draw(st.sampled_from([None, None, 1, 2, 1, 2, 4, 11, 20, 22, 23]))
        if ver == tlsref.TLS13:
            spec["hs_secrets"] = draw(st.booleans())
            spec["ccs13"] = draw(st.booleans())
            spec["pad13"] = draw(st.sampled_from([0, 0, 1, 7, 100]))
            spec["tickets"] = draw(st.integers(0, 2))
            spec["sh13_exts"] = draw(st.integers(0, 4))
            spec["early_labels"] = draw(st.sampled_from([False, False, True]))
            if draw(st.integers(0, 3)) == 0:      # 0.5-RTT data
                spec["half_rtt"] = draw(st.lists(st.tuples(st.integers(0, 300), st.integers(0, 3)).map(list), min_size=1, max_size=2))
        else:
            spec["tickets"] = draw(st.integers(0, 1))
            spec["ske"] = draw(st.booleans())
            spec["ch_comp"] = draw(st.sampled_from([False, False, False, True]))      # DEFLATE offered, null selected
            if ver != tlsref.SSL30:
                spec["sh_ext"] = draw(st.sampled_from(["block", "block", "empty", "none"]))
                if spec["sh_ext"] == "block":
                    n = draw(st.integers(0, 4))
                    spec["extra_exts"] = [[draw(st.sampled_from(EXTRA_EXT_TYPES)), draw(st.integers(0, 12))] for _ in range(n)]
                if spec["sh_ext"] == "none":
                    spec["after_sh"] = draw(st.one_of(st.none(), st.integers(0, 60)))
            spec["explicit_seq_nonce"] = draw(st.booleans())
            if not spec["abbreviated"] and draw(st.integers(0, 3)) == 0:
                spec["false_start"] = draw(st.lists(st.tuples(st.integers(0, 300), st.integers(0, 3)).map(list), min_size=1, max_size=2))
    blk = s.block or 16
    hist = draw(history(max_records, max_len, blk, ver == tlsref.TLS13))
    if ver == tlsref.TLS13:
        hist = [[d, ln, min(p, BIG - ln)] if d != 2 else [d, ln, p] for d, ln, p in hist]
    spec["history"] = hist
    spec["ep"] = draw(ep if ep is not None else endpoints())
    t = draw(delivery if delivery is not None else tcp_delivery())
    if close and not t.get("moves"):
        # most real connections end with close_notify alerts; they come after all application data (data after an alert is not claimed),
        # so they are only generated when no segment is displaced across them
        spec["close"] = draw(st.sampled_from([0, 0, 1, 2, 3, 3]))
    total = sum(ln for _, ln, _ in hist) + spec.get("cert_len", 300) + 400          # every byte of the stream becomes a packet
    if t["mode"] == "bytes" and total > bytes_mode_limit:
        t["mode"] = "cuts"
        t.setdefault("cuts", [[1, 2, 3], [5, 6]])
    spec["tcp"] = t
    return spec


def single_tls_scenario(**kw):
    # capture times: mostly epoch values; sometimes relative times starting at exactly 0, or a file order that is not time order
    # key log: mostly the connection's lines as they are; sometimes shuffled among lines of other connections (a log shared by many
    # connections does not keep a connection's lines together)
    def mk(c, ts, tm, kl):
        sc = dict({"conns": [c], "tseed": ts}, **({"times": tm} if tm else {}))
        if kl:
            sc["keys"] = {"file": True, "shuffle": True, "unrelated": kl, "seed": ts}
        return sc
    return st.builds(mk, tls_conn(**kw), st.integers(0, 1000), st.sampled_from([None] * 6 + ["zero", "disorder"]), st.sampled_from([0, 0, 0, 3, 9]))


# ------------------------------------------------------------------ QUIC
QV = st.one_of(st.integers(0, 63), st.integers(0, 16383), st.integers(0, (1 << 30) - 1), st.integers(0, (1 << 62) - 1))
QW = st.sampled_from([None, None, None, 1, 2, 4, 8])


def quic_frame(max_data=300):
    ln = st.one_of(st.integers(0, 40), st.integers(0, max_data))
    stream = st.tuples(st.just("stream"), st.one_of(st.integers(0, 40), QV), ln, st.one_of(st.none(), QV), st.booleans(), st.booleans(), QW)
    other = st.one_of(
        st.tuples(st.just("pad"), st.integers(1, 30)),
        st.tuples(st.just("ping")),
        st.tuples(st.just("ack"), QV, st.integers(0, 5000), st.integers(0, 50), st.lists(st.tuples(st.integers(0, 50), st.integers(0, 50)).map(list), max_size=3),
                  st.one_of(st.none(), st.tuples(QV, QV, QV).map(list)), QW),
        st.tuples(st.just("crypto"), QV, st.integers(0, 80), QW),            # post-handshake CRYPTO bytes at any offset
        st.tuples(st.just("nst"), st.integers(0, 120), st.integers(0, 60), QW),   # a well-formed NewSessionTicket, in order (1 or 2 frames)
        st.tuples(st.just("nst"), st.integers(0, 120), st.integers(0, 60), QW),
        st.tuples(st.just("token"), st.integers(1, 40), QW),
        st.tuples(st.just("maxdata"), QV, QW),
        st.tuples(st.just("maxsd"), QV, QV, QW),
        st.tuples(st.just("maxstreams"), st.integers(0, 1 << 60), st.booleans(), QW),
        st.tuples(st.just("blocked"), QV, QW),
        st.tuples(st.just("sblocked"), QV, QV, QW),
        st.tuples(st.just("ssblocked"), st.integers(0, 1 << 60), st.booleans(), QW),
        # RESET_STREAM / STOP_SENDING mostly for the small stream ids that the STREAM frames of the history use (a cancelled request)
        st.tuples(st.just("reset"), st.one_of(st.integers(0, 12), st.integers(0, 12), QV), QV, QV, QW),
        st.tuples(st.just("stop"), st.one_of(st.integers(0, 12), st.integers(0, 12), QV), QV, QW),
        st.tuples(st.just("rcid"), st.integers(0, 20), QW),
        st.tuples(st.just("pc")), st.tuples(st.just("pr")),
        st.tuples(st.just("hsdone")),
        st.tuples(st.just("dgram"), st.integers(0, 60), st.booleans(), QW),
    )
    return st.one_of(stream, stream, other).map(list)


# skipped packet numbers: small, around the 1-byte window (so that truncated numbers of different packets coincide: 126+128+... = 256), large
GAPS = [0, 0, 0, 1, 2, 100, 125, 126, 127, 128, 129, 200, 254, 255, 256, 70000, 1 << 22]


@st.composite
def quic_steps(draw, max_steps=12, key_updates=True, cids=True, zero_cid=False, dups=True):
    """application-phase history: mostly datagrams that carry STREAM data (so that the export has something to get wrong)"""
    steps = []
    n = draw(st.integers(2, max_steps))
    kinds = draw(st.lists(st.integers(0, 19), min_size=n, max_size=n))
    for k in kinds:
        d = draw(st.integers(0, 1))
        if k <= 1 and key_updates:
            steps.append({"op": "ku", "d": d})
        elif k == 2 and cids:
            steps.append({"op": "ncid", "d": d, "len": draw(st.integers(1, 20)), "w": draw(st.sampled_from([None, None, 2, 4, 8])),
                          "w2": draw(st.sampled_from([0, 0, 1, 2, 8]))})
        elif k in (3, 4) and cids:
            steps.append({"op": "usecid", "d": d, "i": draw(st.integers(0, 5))})
        elif k == 6 and cids and draw(st.integers(0, 2)) == 0:
            steps.append({"op": "rebind"})
        elif k == 7 and dups and draw(st.integers(0, 1)) == 0:
            steps.append({"op": "dup", "d": d})
        elif k == 5:
            steps.append({"op": "ping", "d": d, "gap": draw(st.sampled_from(GAPS)), "pnl": draw(st.sampled_from([0, 0, 1, 2]))})
        else:
            main = ["stream", draw(st.integers(0, 12)), draw(st.one_of(st.integers(1, 30), st.integers(1, 300), st.integers(1, 300), st.sampled_from([1200, 1350, 5000, 20000]))),
                    draw(st.one_of(st.none(), st.integers(0, 1 << 20))), draw(st.booleans()), draw(st.booleans()), draw(QW)]
            extra = draw(st.lists(quic_frame(), max_size=3)) if k >= 9 else []
            cut = draw(st.integers(0, len(extra)))
            frs = extra[:cut] + [main] + extra[cut:]
            tot, kept = 0, []
            for f in frs:            # keep the datagram below a typical MTU
                sz = f[2] + 20 if f[0] == "stream" else {"crypto": 90, "nst": 140, "dgram": 70, "token": 50, "pad": 30}.get(f[0], 30)
                if tot + sz <= 1150 or f is main:       # a large main frame stands for a jumbo / loopback datagram
                    tot += sz
                    kept.append(f)
            pk = [{"fr": kept or [["ping"]], "gap": draw(st.sampled_from(GAPS)) if k % 2 else 0,
                   "pnl": draw(st.sampled_from([0, 0, 1, 2, 3, 4]))}]
            if k == 19:
                pk.insert(0, {"fr": [["ack", 0, 0, 0, [], None, None]]})
            steps.append({"op": "data", "d": d, "pk": pk})
    # most connections end with CONNECTION_CLOSE (transport 0x1c or application 0x1d), alone or behind the last stream data
    end = draw(st.integers(0, 5))
    if end <= 1:
        close = ["close", draw(st.sampled_from([0, 0, 0x0a, 0x100, 0x3fff])), draw(st.sampled_from([0, 0x08, 0x1c])), draw(st.integers(0, 20)), bool(end), draw(QW)]
        frs = [close]
        if draw(st.booleans()):
            frs.insert(0, ["stream", draw(st.integers(0, 12)), draw(st.integers(1, 60)), None, True, True, None])
        steps.append({"op": "data", "d": draw(st.integers(0, 1)), "pk": [{"fr": frs, "gap": 0, "pnl": 0}]})
    return steps


@st.composite
def quic_conn(draw, max_steps=12, zero_cid=True, early=True, retry=True, offered_any=True, ep=None, cids=True, key_updates=True, dups=True):
    suite = draw(st.sampled_from([0x1301, 0x1302, 0x1303, 0x1304]))
    others = draw(st.lists(st.sampled_from([0x1301, 0x1302, 0x1303, 0x1304, 0x0A0A, 0x1305, 0xC02F, 0xFAFA]), max_size=4))
    others = [o for o in others if o != suite]
    if offered_any:
        pos = draw(st.integers(0, len(others)))
    else:
        pos = 0
    offered = others[:pos] + [suite] + others[pos:]
    cl = st.sampled_from([0, 0, 1, 4, 8, 8, 16, 20]) if zero_cid else st.sampled_from([1, 4, 8, 8, 16, 20])
    spec = {"kind": "quic", "seed": draw(SEED), "suite": suite, "offered": offered,
            # the client's first Destination Connection ID is at least 8 bytes long (RFC 9000 7.2); shorter ones are only used by C15's grid
            "dcid_len": draw(st.sampled_from([8, 8, 12, 18, 20])),
            "c_scid_len": draw(cl), "s_scid_len": draw(cl),
            "retry": draw(st.booleans()) if retry else False,
            "early": draw(st.sampled_from([0, 0, 0, 1, 2, 3])) if early else 0,
            "early_late": draw(st.sampled_from([0, 0, 1, 2])) if early else 0, "half_rtt": draw(st.sampled_from([0, 0, 1, 2])),
            "ch_retx": draw(st.sampled_from([0, 0, 0, 1, 2])), "ch_retx_last_only": draw(st.booleans()),
            "split_ch": draw(st.sampled_from([0, 0, 1, 2, 3, 5])), "ch_shuffle": draw(st.booleans()),
            "split_shs": draw(st.sampled_from([0, 0, 2, 3])), "hs_coalesce": draw(st.booleans()),
            "cert_len": draw(st.sampled_from([100, 600, 900]))}
    spec["hs_pnl"] = draw(st.sampled_from([0, 0, 1, 2, 3, 4]))
    if draw(st.integers(0, 2)) == 0:
        spec["hs_gaps"] = draw(st.lists(st.sampled_from([0, 0, 1, 5, 300, 70000, 1 << 20]), min_size=1, max_size=6))
    spec["token_len"] = draw(st.sampled_from([0, 0, 1, 24, 63, 64, 65, 80, 300]))      # 64 is where the token-length varint grows to 2 bytes
    if draw(st.booleans()):
        spec["split_chunk"] = draw(st.sampled_from([61, 97, 128]))       # fixed cut offsets, shared by all connections of a capture
    if spec.get("early"):
        spec["early_extra"] = draw(st.sampled_from([0, 0, 1, 1, 3, 6, 9, 15]))      # other frames in the 0-RTT packets (NEW_CONNECTION_ID, MAX_DATA, PING, PATH_CHALLENGE)
    spec["steps"] = draw(quic_steps(max_steps, key_updates=key_updates, cids=cids, dups=dups))
    spec["ep"] = draw(ep if ep is not None else endpoints())
    return spec


def single_quic_scenario(**kw):
    return st.builds(lambda c, ts, tm: dict({"conns": [c], "tseed": 1 + ts}, **({"times": tm} if tm else {})), quic_conn(**kw), st.integers(0, 1000),
                     st.sampled_from([None] * 6 + ["zero", "disorder"]))
