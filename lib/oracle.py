"""Reading TLExport's output independently and comparing it with ground truth."""
import os
from ipaddress import ip_address

import netio
import runner
import scenario

BadOutput = netio.BadOutput


def flows(pkts):
    """group parsed output packets by (proto, unordered endpoint pair) -> {key: [pkts in file order]}"""
    fl = {}
    for p in pkts:
        a = (p.sip, p.sport)
        b = (p.dip, p.dport)
        key = (p.proto,) + tuple(sorted([a, b]))
        fl.setdefault(key, []).append(p)
    return fl


def ep_key(ep, proto, sport_out=None):
    c = (ip_address(ep["cip"]).packed, ep["cport"])
    s = (ip_address(ep["sip"]).packed, ep["sport"] if sport_out is None else sport_out)
    return (proto,) + tuple(sorted([c, s])), c, s


def tcp_streams(pk):
    """Strict reassembly of one exported TCP conversation: opens with SYN, SYN/ACK, ACK; every later segment's seq equals the
    running next-seq of its sender and its ack the peer's running next-seq.  -> dict; raises BadOutput."""
    B = BadOutput
    if len(pk) < 3:
        raise B("conversation shorter than a handshake")
    syn, synack, ack = pk[0], pk[1], pk[2]
    if syn.flags != 0x02 or synack.flags != 0x12 or ack.flags != 0x10:
        raise B("does not open with SYN, SYN/ACK, ACK")
    c = (syn.sip, syn.sport)
    s = (syn.dip, syn.dport)
    if (synack.sip, synack.sport) != s or (ack.sip, ack.sport) != c or (synack.dip, synack.dport) != c or (ack.dip, ack.dport) != s:
        raise B("handshake direction")
    if syn.payload or synack.payload or ack.payload:
        raise B("payload in handshake")
    if synack.ack != (syn.seq + 1) & 0xFFFFFFFF or ack.ack != (synack.seq + 1) & 0xFFFFFFFF or ack.seq != (syn.seq + 1) & 0xFFFFFFFF:
        raise B("handshake numbers")
    nxt = {c: (syn.seq + 1) & 0xFFFFFFFF, s: (synack.seq + 1) & 0xFFFFFFFF}
    data = {c: bytearray(), s: bytearray()}
    segs = []
    for p in pk[3:]:
        me, peer = (p.sip, p.sport), (p.dip, p.dport)
        if me not in nxt or peer not in nxt or me == peer:
            raise B("foreign packet in flow")
        if p.flags & 0x02:
            raise B("second SYN in conversation")
        if p.seq != nxt[me]:
            raise B(f"seq gap/overlap: {p.seq} expected {nxt[me]}")
        if not p.flags & 0x10 or p.ack != nxt[peer]:
            raise B(f"ack inconsistent: {p.ack} expected {nxt[peer]}")
        if p.payload:
            segs.append((me == s, len(data[me]), p))
        data[me] += p.payload
        nxt[me] = (nxt[me] + len(p.payload)) & 0xFFFFFFFF
    return {"client": c, "server": s, False: bytes(data[c]), True: bytes(data[s]), "segs": segs, "hs": (syn, synack, ack)}


def classify(got: bytes, want: bytes, cipher_runs=()):
    """mismatch class of an exported stream against the true one"""
    if got == want:
        return None
    for run in cipher_runs:
        if len(run) >= 16 and run[:16] in got:
            return "left-encrypted"
    if not got:
        return "missing-all"
    if want.startswith(got):
        return "missing-suffix"
    if got.startswith(want):
        return "extra-suffix"
    if len(got) == len(want):
        return "corrupted"
    # a hole: got is want with some chunk removed
    i = 0
    while i < min(len(got), len(want)) and got[i] == want[i]:
        i += 1
    j = 0
    while j < min(len(got), len(want)) - i and got[-1 - j] == want[-1 - j]:
        j += 1
    if i + j >= len(got) and len(got) < len(want):
        return "hole"
    if i + j >= len(want) and len(got) > len(want):
        return "extra"
    return "corrupted"


class Outcome:
    """result of one end-to-end run"""
    __slots__ = ("run", "pkts", "bad", "flows", "outpath", "size")


def run_e2e(b, workdir, pkts=None, container=None, keys=None, opts=None, name="in", inproc=True, keep=False, **kw):
    """write capture + keys, run TLExport, read the output strictly"""
    inpath, klpath = scenario.write_capture(b, workdir, pkts=pkts, container=container, keys=keys, name=name)
    outpath = os.path.join(workdir, name + ".out.pcapng")
    if os.path.exists(outpath):
        os.unlink(outpath)
    if b.spec.get("stale_out"):
        # the output path already holds a file - a longer export of an earlier run
        with open(outpath, "wb") as f:
            f.write(b"\x0a\x0d\x0d\x0a" + bytes(b.spec["stale_out"]))
    spec = dict(b.spec)
    if container is not None:
        spec["container"] = container
    argv = scenario.argv_for(spec, inpath, klpath, outpath, opts)
    o = Outcome()
    o.run = runner.run_inproc(argv, **kw) if inproc else runner.run_subprocess(argv, **kw)
    o.pkts, o.bad, o.flows, o.outpath, o.size = None, None, None, outpath, None
    if os.path.exists(outpath):
        o.size = os.path.getsize(outpath)
        try:
            o.pkts = netio.read_output(outpath)
            o.flows = flows(o.pkts)
        except BadOutput as e:
            o.bad = str(e)
    if not keep:
        for p in (inpath, klpath):
            if p and os.path.exists(p):
                os.unlink(p)
    return o


def base_failure(o):
    """failures every property treats alike: abort, missing output, malformed output.  -> signature or None"""
    if o.run.exc is not None:
        return "abort:" + str(o.run.exc_sig)
    if o.run.code != 0:
        return f"exit:{o.run.code}"
    if o.pkts is None and o.bad is None:
        return "no-output-file"
    if o.bad is not None:
        return "malformed:" + o.bad.split(":")[0][:40]
    return None


def tls_flow_check(o, conn, ep, sport_out=None):
    """C01 oracle for one connection.  -> (signature | None, detail)"""
    key, c, s = ep_key(ep, 6, sport_out)
    pk = o.flows.get(key)
    want = {False: bytes(conn.truth[False]), True: bytes(conn.truth[True])}
    if pk is None:
        if not want[False] and not want[True]:
            return None, ""
        return "tls:missing-all:both", "no exported conversation for the connection"
    try:
        st = tcp_streams(pk)
    except BadOutput as e:
        return "malformed-tcp:" + str(e).split(":")[0][:40], str(e)
    if st["client"] != c or st["server"] != s:
        return "tls:wrong-orientation", f"client {st['client']} server {st['server']}"
    cipher_runs = [bytes(d[5:]) for srv, d, tag in conn.events if tag == "APP" and len(d) > 21]
    for srv in (False, True):
        cl = classify(st[srv], want[srv], cipher_runs)
        if cl:
            return f"tls:{cl}:{'server' if srv else 'client'}", f"got {len(st[srv])} bytes want {len(want[srv])}"
    return None, ""


def quic_flow_list(o, ep, sport_out=None):
    """non-empty exported datagrams between the connection's client (address + port) and its server ADDRESS; the exported
    server port is the business of C10 (pass sport_out to insist on one)"""
    key, c, s = ep_key(ep, 17, sport_out)
    out = []
    for p in o.pkts or []:
        if p.proto != 17 or not p.payload:
            continue
        if (p.sip, p.sport) == c and p.dip == s[0] and (sport_out is None or p.dport == s[1]):
            out.append((False, p.payload, p))
        elif (p.dip, p.dport) == c and p.sip == s[0] and (sport_out is None or p.sport == s[1]):
            out.append((True, p.payload, p))
    return out


def quic_flow_check(o, conn, ep, sport_out=None):
    """C02 oracle: non-empty exported datagrams == data-carrying input datagrams, in order, right direction"""
    got = [(srv, pl) for srv, pl, _ in quic_flow_list(o, ep, sport_out)]
    want = conn.expected_export()
    if got == want:
        return None, ""
    if not got:
        return "quic:missing-all", f"want {len(want)} datagrams"
    if len(got) < len(want) and got == want[:len(got)]:
        return "quic:missing-suffix", f"got {len(got)} of {len(want)}"
    gj = {False: b"".join(p for s, p in got if not s), True: b"".join(p for s, p in got if s)}
    wj = {False: b"".join(p for s, p in want if not s), True: b"".join(p for s, p in want if s)}
    if gj == wj:
        return "quic:regrouped", f"same bytes per direction, {len(got)} datagrams instead of {len(want)}"
    if sorted(p for _, p in got) == sorted(p for _, p in want):
        return "quic:misattributed-or-reordered", ""
    if b"".join(p for _, p in got) == b"".join(p for _, p in want):
        return "quic:merged", f"{len(got)} datagrams instead of {len(want)}"
    ws = set(want)
    if all(g in ws for g in got):
        return "quic:missing-some", f"got {len(got)} of {len(want)}"
    return "quic:corrupted", f"got {len(got)} want {len(want)}"
