"""Independent TLS (SSL 3.0 - TLS 1.3) reference encoder.

Key schedules are written on hashlib/hmac only; record protection uses the primitive block / stream / AEAD ciphers of
`cryptography` (trusted base) and nothing of TLExport.  Handshake framing is done by hand.  A connection is built from a
JSON-serialisable spec (see `TlsConn`), all bulk bytes come from `random.Random(spec["seed"])`.
"""
import hashlib
import hmac
import random
import struct
import warnings

warnings.simplefilter("ignore")
from cryptography.hazmat.primitives.ciphers import Cipher, algorithms, modes  # noqa: E402
from cryptography.hazmat.primitives.ciphers.aead import AESGCM, AESCCM, ChaCha20Poly1305  # noqa: E402

try:  # cryptography >= 43 moved the legacy ciphers
    from cryptography.hazmat.decrepit.ciphers import algorithms as _dec  # noqa: E402
except Exception:  # pragma: no cover
    _dec = algorithms

SSL30, TLS10, TLS11, TLS12, TLS13 = 0x0300, 0x0301, 0x0302, 0x0303, 0x0304
VERSION_NAMES = {SSL30: "SSL3.0", TLS10: "TLS1.0", TLS11: "TLS1.1", TLS12: "TLS1.2", TLS13: "TLS1.3"}

_CIPHER_TABLE = {
    "RC4_128": ("rc4", 16, 0), "3DES_EDE_CBC": ("3des", 24, 8), "IDEA_CBC": ("idea", 16, 8),
    "AES_128_CBC": ("aes", 16, 16), "AES_256_CBC": ("aes", 32, 16),
    "CAMELLIA_128_CBC": ("camellia", 16, 16), "CAMELLIA_256_CBC": ("camellia", 32, 16),
    "AES_128_GCM": ("gcm", 16, 0), "AES_256_GCM": ("gcm", 32, 0),
    "AES_128_CCM": ("ccm", 16, 0), "AES_256_CCM": ("ccm", 32, 0),
    "CHACHA20_POLY1305": ("chacha", 32, 0),
}


class UnsupportedName(Exception):
    pass


class Suite:
    """Parameters a cipher-suite *name* denotes (independent name parser: split at _WITH_, token grammar)."""

    def __init__(self, code: int, name: str):
        self.code, self.name = code, name
        if not name.startswith("TLS_"):
            raise UnsupportedName(name)
        self.tls13 = "_WITH_" not in name
        body = name.split("_WITH_", 1)[1] if not self.tls13 else name[4:]
        toks = body.split("_")
        self.mac = None
        if toks[-1] in ("SHA", "SHA256", "SHA384", "MD5"):
            self.mac = {"SHA": "sha1", "SHA256": "sha256", "SHA384": "sha384", "MD5": "md5"}[toks[-1]]
            toks = toks[:-1]
        self.tag = 16
        if toks and toks[-1] == "8":
            self.tag = 8
            toks = toks[:-1]
        c = "_".join(toks)
        self.cipher_name = c
        if c not in _CIPHER_TABLE:
            raise UnsupportedName(name)
        self.alg, self.key_len, self.block = _CIPHER_TABLE[c]
        self.aead = self.alg in ("gcm", "ccm", "chacha")
        self.kind = "aead" if self.aead else ("stream" if self.alg == "rc4" else "cbc")
        if self.aead or self.tls13:
            self.prf = self.mac if self.mac in ("sha256", "sha384") else "sha256"
        else:
            if self.mac is None:
                raise UnsupportedName(name)
            self.prf = "sha384" if self.mac == "sha384" else "sha256"
        self.mac_len = 0 if self.aead else hashlib.new(self.mac).digest_size

    def versions(self):
        if self.tls13:
            return [TLS13]
        if self.aead or self.mac in ("sha256", "sha384"):
            return [TLS12]
        if self.alg == "idea":
            return [SSL30, TLS10, TLS11]
        return [SSL30, TLS10, TLS11, TLS12]

    def __repr__(self):
        return f"{self.code:04X}:{self.name}"


# ------------------------------------------------------------------ key schedules
def ssl3_prf(secret, seed_a, seed_b, n):
    out = b""
    i = 0
    while len(out) < n:
        lab = bytes([65 + i]) * (i + 1)
        out += hashlib.md5(secret + hashlib.sha1(lab + secret + seed_a + seed_b).digest()).digest()
        i += 1
    return out[:n]


def p_hash(h, secret, seed, n):
    out = b""
    a = seed
    while len(out) < n:
        a = hmac.new(secret, a, h).digest()
        out += hmac.new(secret, a + seed, h).digest()
    return out[:n]


def tls10_prf(secret, label, seed, n):
    half = (len(secret) + 1) // 2
    s1, s2 = secret[:half], secret[len(secret) - half:]
    a = p_hash("md5", s1, label + seed, n)
    b = p_hash("sha1", s2, label + seed, n)
    return bytes(x ^ y for x, y in zip(a, b))


def tls12_prf(h, secret, label, seed, n):
    return p_hash(h, secret, label + seed, n)


def hkdf_expand(h, prk, info, n):
    out = b""
    t = b""
    i = 1
    while len(out) < n:
        t = hmac.new(prk, t + info + bytes([i]), h).digest()
        out += t
        i += 1
    return out[:n]


def hkdf_extract(h, salt, ikm):
    return hmac.new(salt, ikm, h).digest()


def hkdf_expand_label(h, secret, label, ctx, n):
    full = b"tls13 " + label
    info = struct.pack("!HB", n, len(full)) + full + bytes([len(ctx)]) + ctx
    return hkdf_expand(h, secret, info, n)


def key_block(version, suite: Suite, master, cr, sr):
    """RFC 2246 6.3 / RFC 5246 6.3 / SSL3 6.2.2 key block partitioning -> dict"""
    if suite.kind == "cbc":
        iv_len = suite.block
    elif suite.alg in ("gcm", "ccm"):
        iv_len = 4
    elif suite.alg == "chacha":
        iv_len = 12
    else:
        iv_len = 0
    n = 2 * suite.mac_len + 2 * suite.key_len + 2 * iv_len
    if version == SSL30:
        kb = ssl3_prf(master, sr, cr, n)
    elif version in (TLS10, TLS11):
        kb = tls10_prf(master, b"key expansion", sr + cr, n)
    else:
        kb = tls12_prf(suite.prf, master, b"key expansion", sr + cr, n)
    o = 0
    r = {}
    for nm, ln in (("cmac", suite.mac_len), ("smac", suite.mac_len), ("ckey", suite.key_len), ("skey", suite.key_len),
                   ("civ", iv_len), ("siv", iv_len)):
        r[nm] = kb[o:o + ln]
        o += ln
    r["iv_len"] = iv_len
    return r


def master_from_premaster(version, suite, pms, cr, sr):
    if version == SSL30:
        return ssl3_prf(pms, cr, sr, 48)
    if version in (TLS10, TLS11):
        return tls10_prf(pms, b"master secret", cr + sr, 48)
    return tls12_prf(suite.prf, pms, b"master secret", cr + sr, 48)


def tls13_keys(suite: Suite, secret):
    return (hkdf_expand_label(suite.prf, secret, b"key", b"", suite.key_len),
            hkdf_expand_label(suite.prf, secret, b"iv", b"", 12))


# ------------------------------------------------------------------ record protection (one direction)
def _block_cipher(alg, key):
    if alg == "aes":
        return algorithms.AES(key)
    if alg == "3des":
        return getattr(_dec, "TripleDES", None)(key) if hasattr(_dec, "TripleDES") else algorithms.TripleDES(key)
    if alg == "camellia":
        return algorithms.Camellia(key)
    if alg == "idea":
        return getattr(_dec, "IDEA", None)(key) if hasattr(_dec, "IDEA") else algorithms.IDEA(key)
    raise ValueError(alg)


def _rc4(key):
    cls = getattr(_dec, "ARC4", None) or algorithms.ARC4
    return Cipher(cls(key), mode=None).encryptor()


def rbytes(rnd, n):
    return rnd.randbytes(n) if n else b""


class WriteState:
    """Record protection state for one direction, SSL 3.0 - TLS 1.2."""

    def __init__(self, version, suite: Suite, key, iv, mac_key, etm, rnd: random.Random):
        self.v, self.s, self.key, self.iv, self.mac_key, self.etm, self.rnd = version, suite, key, iv, mac_key, etm, rnd
        self.seq = 0
        if suite.alg == "rc4":
            self.rc4 = _rc4(key)
        self.residue = iv

    def _mac(self, ctype, data):
        s = self.s
        seq = struct.pack("!Q", self.seq)
        if self.v == SSL30:
            padlen = 48 if s.mac == "md5" else 40
            inner = hashlib.new(s.mac, self.mac_key + b"\x36" * padlen + seq + bytes([ctype]) + struct.pack("!H", len(data)) + data).digest()
            return hashlib.new(s.mac, self.mac_key + b"\x5c" * padlen + inner).digest()
        return hmac.new(self.mac_key, seq + bytes([ctype]) + struct.pack("!HH", self.v, len(data)) + data, s.mac).digest()

    deflate = None      # zlib.compressobj() when DEFLATE was negotiated (RFC 3749): one stream per direction, sync flush per record

    def protect(self, ctype, data, pad_blocks=0, explicit_seq_nonce=True):
        s = self.s
        ver = struct.pack("!H", self.v)
        if self.deflate is not None:
            import zlib
            data = self.deflate.compress(data) + self.deflate.flush(zlib.Z_SYNC_FLUSH)
        if s.kind == "stream":
            frag = self.rc4.update(data + self._mac(ctype, data))
        elif s.kind == "cbc":
            bs = s.block
            explicit = self.v >= TLS11
            iv = rbytes(self.rnd, bs) if explicit else self.residue
            bc = _block_cipher(s.alg, self.key)

            def pad(n_plain):
                need = (-(n_plain + 1)) % bs
                extra = 0 if self.v == SSL30 else pad_blocks * bs
                tot = need + extra
                if tot > 255:
                    tot = need
                if self.v == SSL30:
                    return rbytes(self.rnd, tot) + bytes([tot])
                return bytes([tot]) * (tot + 1)
            if self.etm:
                pt = data + pad(len(data))
                enc = Cipher(bc, modes.CBC(iv)).encryptor()
                ct = enc.update(pt) + enc.finalize()
                body = (iv if explicit else b"") + ct
                seq = struct.pack("!Q", self.seq)
                mac = hmac.new(self.mac_key, seq + bytes([ctype]) + ver + struct.pack("!H", len(body)) + body, s.mac).digest()
                frag = body + mac
                self.residue = ct[-bs:]
            else:
                pt = data + self._mac(ctype, data)
                pt += pad(len(pt))
                enc = Cipher(bc, modes.CBC(iv)).encryptor()
                ct = enc.update(pt) + enc.finalize()
                frag = (iv if explicit else b"") + ct
                self.residue = ct[-bs:]
        else:  # AEAD, TLS 1.2
            seq = struct.pack("!Q", self.seq)
            aad = seq + bytes([ctype]) + ver + struct.pack("!H", len(data))
            if s.alg == "chacha":
                nonce = bytes(a ^ b for a, b in zip(self.iv, b"\x00" * 4 + seq))
                frag = ChaCha20Poly1305(self.key).encrypt(nonce, data, aad)
            else:
                explicit = seq if explicit_seq_nonce else rbytes(self.rnd, 8)
                nonce = self.iv + explicit
                a = AESGCM(self.key) if s.alg == "gcm" else AESCCM(self.key, tag_length=s.tag)
                frag = explicit + a.encrypt(nonce, data, aad)
        self.seq += 1
        return bytes([ctype]) + ver + struct.pack("!H", len(frag)) + frag


class WriteState13:
    def __init__(self, suite: Suite, secret):
        self.s = suite
        self.set_secret(secret)

    def set_secret(self, secret):
        self.key, self.iv = tls13_keys(self.s, secret)
        self.seq = 0

    def protect(self, ctype, data, pad=0):
        inner = data + bytes([ctype]) + b"\x00" * pad
        tag = self.s.tag
        hdr = b"\x17\x03\x03" + struct.pack("!H", len(inner) + tag)
        nonce = bytes(a ^ b for a, b in zip(self.iv, b"\x00" * 4 + struct.pack("!Q", self.seq)))
        if self.s.alg == "gcm":
            ct = AESGCM(self.key).encrypt(nonce, inner, hdr)
        elif self.s.alg == "ccm":
            ct = AESCCM(self.key, tag_length=tag).encrypt(nonce, inner, hdr)
        else:
            ct = ChaCha20Poly1305(self.key).encrypt(nonce, inner, hdr)
        self.seq += 1
        return hdr + ct


# ------------------------------------------------------------------ handshake messages
def hs(t, body):
    return bytes([t]) + struct.pack("!I", len(body))[1:] + body


def ext(t, body):
    return struct.pack("!HH", t, len(body)) + body


def _frag(msgs, bits, n, cuts=None, cont=None):
    """n > 0: the flight is one byte stream cut into records of at most n bytes (RFC 5246 6.2.1 / RFC 8446 5.1: a handshake message may
    be fragmented across several records, and a record may hold the end of one message and the start of the next); cuts: additional record
    boundaries [[message index, j], ...] j bytes into (the header of) that message; neither: _group.  A leading ServerHello stays whole."""
    if not n and not cuts:
        return _group(msgs, bits)
    data = b"".join(m for _, m in msgs)
    starts, off = [], 0
    for t, m in msgs:
        starts.append((off, t))
        off += len(m)
    keep = len(msgs[0][1]) if msgs and msgs[0][0] == "SH" else 0
    bounds = set(range(n, len(data), n)) if n else set()
    for mi, j in cuts or []:
        bounds.add(starts[mi % len(starts)][0] + j)
    bounds = sorted(b for b in bounds if keep <= b < len(data) and b > 0)
    if cont is not None:
        # a continuation record that begins inside the body of a Certificate message begins with the byte `cont` (certificates are
        # DER: 01 / 02 / 04 / 16 ... are everyday tag bytes, and they are also handshake message types and record content types)
        data = bytearray(data)
        for b in bounds:
            inside = [(o, t) for (o, t), nxt in zip(starts, [o2 for o2, _ in starts[1:]] + [len(data)]) if o + 4 <= b < nxt]
            if inside and inside[0][1] in ("CERT", "CCERT"):
                data[b] = cont
        data = bytes(data)
    # no record longer than 2^14 bytes
    edges = [0] + bounds + [len(data)]
    full = [0]
    for e in edges[1:]:
        while e - full[-1] > 16384:
            full.append(full[-1] + 16384)
        if e > full[-1]:
            full.append(e)
    # a record is tagged with the messages that start in it ("FRAG" if it only continues one)
    return [("+".join(t for o, t in starts if a <= o < b) or "FRAG", data[a:b]) for a, b in zip(full, full[1:])]


def _group(msgs, bits):
    """msgs: [(tag, bytes)] -> [(tag, bytes)] where message i+1 is joined to message i's record iff bit i of `bits`."""
    out = []
    for i, (t, m) in enumerate(msgs):
        if i and (bits >> (i - 1)) & 1:
            pt, pm = out[-1]
            out[-1] = (pt + "+" + t, pm + m)
        else:
            out.append((t, m))
    return out


DEFAULT_TLS_SPEC = dict(
    kind="tls", seed=1, version=TLS12, suite=0xC02F, etm=False, sid_len=0, abbreviated=False,
    grouping=0,            # bit i: handshake message i+1 of a flight shares the record of message i
    sh_ext="block",        # block | empty | none (none only <= TLS1.2): ServerHello extension block
    extra_exts=[],         # [[type, body_len], ...] extra ServerHello extensions (<= TLS 1.2)
    after_sh=None,         # None | int: length of a message body following SH in the same record when sh_ext == none
    hs_secrets=True, ccs13=True, pad13=0, tickets=0, cert_len=300, ske=False,
    history=[[0, 20, 0], [1, 40, 0]],   # [dir (0 client, 1 server), plaintext length, padding amount]
    sh13_exts=0,           # order / presence of supported_versions, key_share, pre_shared_key in a TLS 1.3 ServerHello (0..4)
    early_labels=False,    # TLS 1.3: the key log also holds CLIENT_EARLY_TRAFFIC_SECRET / EARLY_EXPORTER_SECRET lines of this connection
    hrr=0,                 # TLS 1.3: 1 = HelloRetryRequest + compatibility CCS + second ClientHello, 2 = without the CCS (content not claimed)
    share_master=0,        # != 0: the master secret is derived from this value (TLS <= 1.2 connections resumed from one session share it)
    ch_comp=False, sh_comp=False,   # DEFLATE offered by the client / selected by the server (<= TLS 1.2)
    hs_cont=None,          # first byte of continuation records that begin inside a Certificate body
    hs_cuts=None,          # [[message index, j], ...] extra record boundaries j bytes into a message of the flight (0..4: around / inside its header)
    client_auth=False,     # CertificateRequest in the server's flight; Certificate / CertificateVerify in the client's
    half_rtt=None,         # [[len, pad], ...] TLS 1.3: server application records right after the server Finished, before the client's (0.5-RTT)
    false_start=None,      # [[len, pad], ...] client application records sent right after the client Finished (full handshake, <= TLS 1.2)
    close=0,               # bit 0: client ends with close_notify, bit 1: server does (after all application data of both directions)
    abort_after_ch=None,   # None | [is_server, level, desc]: the handshake is aborted by a plaintext alert right after the ClientHello
    rsa_label=False,       # key log gives "RSA <..>"?  (not used: needs encrypted pre-master id) kept False
    explicit_seq_nonce=True,
)


class TlsConn:
    """One synthetic TLS connection.

    .events        [(is_server, record_bytes, tag)] in sending order
    .hs_last       index of the last handshake-phase event (events after it are application phase)
    .keylog        list[str] NSS key-log lines that belong to it
    .truth         {False: bytes, True: bytes} application plaintext per direction
    .truth_records [(is_server, plaintext)] in sending order
    .rec_index     for each event index -> index into truth_records or None
    """

    def __init__(self, spec, suites_by_code):
        sp = dict(DEFAULT_TLS_SPEC)
        sp.update(spec)
        self.spec = sp
        rnd = self.rnd = random.Random(sp["seed"])
        version = self.v = sp["version"]
        suite = self.s = suites_by_code[sp["suite"]]
        self.cr, self.sr = rbytes(rnd, 32), rbytes(rnd, 32)
        self.events = []
        self.truth = {False: bytearray(), True: bytearray()}
        self.truth_records = []
        self.rec_index = []
        self.keylog = []
        self.fin_plain = {}
        self.etm = bool(sp["etm"]) and suite.kind == "cbc" and version != SSL30
        self.pad13 = sp["pad13"]
        self.grouping = sp["grouping"]
        legacy = min(version, TLS12)
        rv = struct.pack("!H", legacy)
        sid = rbytes(rnd, sp["sid_len"])
        # ---- ClientHello
        ch_ext = b""
        if version != SSL30:
            ch_ext += ext(0xFF01, b"\x00")
            if self.etm:
                ch_ext += ext(0x0016, b"")
            if version == TLS13:
                ch_ext += ext(0x002B, b"\x02\x03\x04") + ext(0x0033, struct.pack("!H", 36) + struct.pack("!HH", 29, 32) + rbytes(rnd, 32))
        ch_body = rv + self.cr + bytes([len(sid)]) + sid + struct.pack("!H", 4) + struct.pack("!H", suite.code) + b"\x00\xff" + \
            (b"\x02\x01\x00" if (sp.get("ch_comp") or sp.get("sh_comp")) and version != TLS13 else b"\x01\x00")
        if ch_ext:
            ch_body += struct.pack("!H", len(ch_ext)) + ch_ext
        ch = hs(1, ch_body)
        ch_rec_ver = b"\x03\x00" if version == SSL30 else b"\x03\x01"
        self._plain(False, 0x16, ch, ch_rec_ver, "CH")
        if sp.get("abort_after_ch"):
            who, level, desc = sp["abort_after_ch"]
            self._plain(bool(who), 0x15, bytes([level, desc]), rv if version != SSL30 else b"\x03\x00", "ALERT")
            self.hs_last = len(self.events) - 1
            self.keylog.append(f"CLIENT_RANDOM {self.cr.hex()} {rbytes(rnd, 48).hex()}")
            return
        if sp.get("hrr") and version == TLS13:
            # HelloRetryRequest (RFC 8446 4.1.4): a ServerHello with the special random, optionally followed by the middlebox
            # ChangeCipherSpec, then a second ClientHello with the same random.  What is exported for such a connection is not claimed by
            # C01; the captures serve C06 / C03 (valid output, no abort)
            hrr_random = bytes.fromhex("cf21ad74e59a6111be1d8c021e65b891c2a211167abb8c5e079e09e2c8a8339c")
            hrr_body = rv + hrr_random + bytes([len(sid)]) + sid + struct.pack("!H", suite.code) + b"\x00"
            hrr_ext = ext(0x002B, b"\x03\x04") + ext(0x0033, struct.pack("!H", 23))
            hrr_body += struct.pack("!H", len(hrr_ext)) + hrr_ext
            self._plain(True, 0x16, hs(2, hrr_body), rv, "HRR")
            if sp["hrr"] == 1:
                self._plain(True, 0x14, b"\x01", rv, "CCS")
            self._plain(False, 0x16, ch, rv, "CH2")
        # ---- ServerHello
        sh_ext = b""
        if version == TLS13:
            sv, ks, psk = ext(0x002B, b"\x03\x04"), ext(0x0033, struct.pack("!HH", 29, 32) + rbytes(rnd, 32)), ext(0x0029, b"\x00\x00")
            # the extensions of a TLS 1.3 ServerHello come in any order; pre_shared_key is there on resumption
            sh_ext += [sv + ks, ks + sv, ks + psk + sv, psk + sv + ks, sv + ks + psk][sp.get("sh13_exts", 0) % 5]
        else:
            if self.etm:
                sh_ext += ext(0x0016, b"")
            for t, ln in sp["extra_exts"]:
                sh_ext += ext(t, rbytes(rnd, ln))
        # sh_comp: the server selects DEFLATE (RFC 3749).  What is exported for such a connection is not claimed (C01 excludes
        # compression; the encoder does compress, one DEFLATE stream per direction with a sync flush per record); such captures serve C18 / C06 only.
        # ch_comp: the client merely offers DEFLATE next to null and the server selects null - an ordinary connection
        sh_body = rv + self.sr + bytes([len(sid)]) + sid + struct.pack("!H", sp.get("sh_suite") or suite.code) + \
            (b"\x01" if sp.get("sh_comp") and version != TLS13 else b"\x00")
        mode = sp["sh_ext"]
        if version == TLS13 or sh_ext or self.etm:
            mode = "block"
        if version == SSL30:
            mode = "none"
        if mode == "block" or (mode == "empty"):
            sh_body += struct.pack("!H", len(sh_ext)) + sh_ext
        self.sh_mode = mode
        sh = hs(2, sh_body)
        if version == TLS13:
            self._tls13(sh, rv)
        else:
            self._legacy(sh, rv)
        self.hs_last = len(self.events) - 1
        if version == TLS13:
            for _ in range(sp["tickets"]):     # post-handshake tickets belong to the application phase
                self.ticket()
        for d, ln, pad in sp["history"]:
            if d == 2:
                if version == TLS13:
                    self.ticket(ln)
                else:
                    # <= TLS 1.2: a HelloRequest (RFC 5246 7.4.1.1) from the server in the application phase, which the client ignores
                    # (no renegotiation follows): an encrypted handshake record with the 4-byte message 00 00 00 00
                    w = self.w[True]
                    self.events.append((True, w.protect(0x16, hs(0, b"")), "HREQ"))
                    self.rec_index.append(None)
                continue
            if d in (3, 4):          # warning-level alert (close_notify) sent by the client (3) / server (4): extension used by C13 only
                self.alert(d == 4, 1, 0)
                continue
            self.app(bool(d), rbytes(rnd, ln), pad)
        if sp.get("close", 0) & 1:
            self.alert(False, 1, 0)
        if sp.get("close", 0) & 2:
            self.alert(True, 1, 0)

    def ticket(self, ln=60):
        self.events.append((True, self.w[True].protect(0x16, hs(4, rbytes(self.rnd, ln)), self.pad13), "NST"))
        self.rec_index.append(None)

    # plaintext record
    def _plain(self, srv, ctype, data, ver, tag):
        self.events.append((srv, bytes([ctype]) + ver + struct.pack("!H", len(data)) + data, tag))
        self.rec_index.append(None)

    def _enc(self, srv, rec, tag):
        self.events.append((srv, rec, tag))
        self.rec_index.append(None)

    def _fin(self, srv, n):
        m = hs(20, rbytes(self.rnd, n))
        self.fin_plain[srv] = m
        return m

    def _legacy(self, sh, rv):
        rnd, v, s, sp = self.rnd, self.v, self.s, self.spec
        master = rbytes(rnd, 48)
        if sp.get("share_master"):
            # session resumption: connections resumed from the same session have the same master secret (and their own randoms)
            import random as _random
            master = _random.Random(sp["share_master"]).randbytes(48)
        self.master = master
        self.keylog.append(f"CLIENT_RANDOM {self.cr.hex()} {master.hex()}")
        kb = key_block(v, s, master, self.cr, self.sr)
        self.kb = kb
        cw = WriteState(v, s, kb["ckey"], kb["civ"], kb["cmac"], self.etm, rnd)
        sw = WriteState(v, s, kb["skey"], kb["siv"], kb["smac"], self.etm, rnd)
        self.w = {False: cw, True: sw}
        if sp.get("sh_comp"):
            import zlib
            cw.deflate, sw.deflate = zlib.compressobj(), zlib.compressobj()
        fin_len = 36 if v == SSL30 else 12
        g = self.grouping
        if sp["abbreviated"]:
            msgs = [("SH", sh)]
            if sp["tickets"] and v != SSL30:
                msgs.append(("NST", hs(4, rbytes(rnd, 40))))
            for t, m in _group(msgs, g):
                self._plain(True, 0x16, m, rv, t)
            self._plain(True, 0x14, b"\x01", rv, "CCS")
            self._enc(True, sw.protect(0x16, self._fin(True, fin_len)), "FIN")
            self._plain(False, 0x14, b"\x01", rv, "CCS")
            self._enc(False, cw.protect(0x16, self._fin(False, fin_len)), "FIN")
        else:
            msgs = [("SH", sh)]
            if self.sh_mode == "none" and sp["after_sh"] is not None:
                # a message directly after an extension-less ServerHello, forced into the same record
                msgs.append(("SKE*", hs(12, rbytes(rnd, sp["after_sh"]))))
                g |= 1
            msgs.append(("CERT", hs(11, rbytes(rnd, sp["cert_len"]))))
            if sp["ske"]:
                msgs.append(("SKE", hs(12, rbytes(rnd, 70))))
            if sp.get("client_auth"):
                msgs.append(("CR", hs(13, rbytes(rnd, 24))))
            msgs.append(("SHD", hs(14, b"")))
            for t, m in _frag(msgs, g, sp.get("hs_frag", 0), sp.get("hs_cuts"), sp.get("hs_cont")):
                self._plain(True, 0x16, m, rv, t)
            if sp.get("client_auth"):
                # client authentication: Certificate, ClientKeyExchange, CertificateVerify - grouped / fragmented like the server's flight
                cmsgs = [("CCERT", hs(11, rbytes(rnd, max(10, sp["cert_len"] // 2)))), ("CKE", hs(16, rbytes(rnd, 130))), ("CCV", hs(15, rbytes(rnd, 70)))]
                for t, m in _frag(cmsgs, g >> 2, sp.get("hs_frag", 0), sp.get("hs_cuts"), sp.get("hs_cont")):
                    self._plain(False, 0x16, m, rv, t)
            else:
                self._plain(False, 0x16, hs(16, rbytes(rnd, 130)), rv, "CKE")
            self._plain(False, 0x14, b"\x01", rv, "CCS")
            self._enc(False, cw.protect(0x16, self._fin(False, fin_len)), "FIN")
            for ln, pad in sp.get("false_start") or []:
                # TLS False Start (RFC 7918): the client sends application data right after its Finished, before the server's
                # ChangeCipherSpec / Finished (and NewSessionTicket) arrive
                self.app(False, rbytes(rnd, ln), pad)
            if sp["tickets"] and v != SSL30:
                self._plain(True, 0x16, hs(4, rbytes(rnd, 40)), rv, "NST")
            self._plain(True, 0x14, b"\x01", rv, "CCS")
            self._enc(True, sw.protect(0x16, self._fin(True, fin_len)), "FIN")

    def _tls13(self, sh, rv):
        rnd, s, sp = self.rnd, self.s, self.spec
        hl = hashlib.new(s.prf).digest_size
        sec = {k: rbytes(rnd, hl) for k in ("chs", "shs", "cap", "sap")}
        self.secrets13 = sec
        cr = self.cr.hex()
        if sp.get("early_labels"):
            # a client that offers a PSK with early data logs these before anything else; they never protect what C01 claims
            self.keylog.append(f"CLIENT_EARLY_TRAFFIC_SECRET {cr} {rbytes(rnd, hl).hex()}")
            self.keylog.append(f"EARLY_EXPORTER_SECRET {cr} {rbytes(rnd, hl).hex()}")
        if sp["hs_secrets"]:
            self.keylog.append(f"CLIENT_HANDSHAKE_TRAFFIC_SECRET {cr} {sec['chs'].hex()}")
            self.keylog.append(f"SERVER_HANDSHAKE_TRAFFIC_SECRET {cr} {sec['shs'].hex()}")
        self.keylog.append(f"CLIENT_TRAFFIC_SECRET_0 {cr} {sec['cap'].hex()}")
        self.keylog.append(f"SERVER_TRAFFIC_SECRET_0 {cr} {sec['sap'].hex()}")
        self.keylog.append(f"EXPORTER_SECRET {cr} {rbytes(rnd, hl).hex()}")
        self._plain(True, 0x16, sh, rv, "SH")
        if sp["ccs13"]:
            self._plain(True, 0x14, b"\x01", rv, "CCS")
        sw = WriteState13(s, sec["shs"])
        cw = WriteState13(s, sec["chs"])
        self.w = {False: cw, True: sw}
        msgs = [("EE", hs(8, b"\x00\x00"))] + ([("CR", hs(13, rbytes(rnd, 24)))] if sp.get("client_auth") else []) + \
            [("CERT", hs(11, rbytes(rnd, sp["cert_len"]))), ("CV", hs(15, rbytes(rnd, 70))), ("FIN", hs(20, rbytes(rnd, hl)))]
        for t, m in _frag(msgs, self.grouping, sp.get("hs_frag", 0), sp.get("hs_cuts"), sp.get("hs_cont")):
            self._enc(True, sw.protect(0x16, m, self.pad13), t)
        sw.set_secret(sec["sap"])
        for ln, pad in sp.get("half_rtt") or []:
            # RFC 8446 4.4.4: the server may send application data right after its Finished, before it has the client's ("0.5-RTT data")
            self.app(True, rbytes(rnd, ln), pad)
        if sp["ccs13"]:
            self._plain(False, 0x14, b"\x01", rv, "CCS")
        cmsgs = [("FIN", hs(20, rbytes(rnd, hl)))]
        if sp.get("client_auth"):
            cmsgs = [("CCERT", hs(11, rbytes(rnd, max(10, sp["cert_len"] // 2)))), ("CCV", hs(15, rbytes(rnd, 70)))] + cmsgs
        for t, m in _frag(cmsgs, self.grouping >> 2, sp.get("hs_frag", 0), sp.get("hs_cuts"), sp.get("hs_cont")):
            self._enc(False, cw.protect(0x16, m, self.pad13), t)
        cw.set_secret(sec["cap"])

    def app(self, srv, data, pad=0):
        w = self.w[srv]
        if self.v == TLS13:
            rec = w.protect(0x17, data, pad)
        else:
            rec = w.protect(0x17, data, pad, self.spec["explicit_seq_nonce"])
        self.events.append((srv, rec, "APP"))
        self.rec_index.append(len(self.truth_records))
        self.truth[srv] += data
        self.truth_records.append((srv, data))

    def alert(self, srv, level=1, desc=0):
        w = self.w[srv]
        if self.v == TLS13:
            rec = w.protect(0x15, bytes([level, desc]), 0)
        else:
            rec = w.protect(0x15, bytes([level, desc]))
        self.events.append((srv, rec, "ALERT"))
        self.rec_index.append(None)

    # ---- reference key material (oracle of C15)
    def reference_keys(self):
        if self.v == TLS13:
            out = {}
            for nm, k in (("client_handshake", "chs"), ("server_handshake", "shs"), ("client_application", "cap"), ("server_application", "sap")):
                key, iv = tls13_keys(self.s, self.secrets13[k])
                out[nm + "_key"], out[nm + "_iv"] = key, iv
            return out
        kb = self.kb
        out = {"client_key": kb["ckey"], "server_key": kb["skey"]}
        if not self.s.aead:
            out["client_mac"], out["server_mac"] = kb["cmac"], kb["smac"]
        if self.s.kind == "cbc" and self.v in (SSL30, TLS10):
            out["client_iv"], out["server_iv"] = kb["civ"], kb["siv"]
        if self.s.aead:
            out["client_iv"], out["server_iv"] = kb["civ"], kb["siv"]
        return out


_SUITES = None


def load_suites():
    """Suites of TLExport's table, described by OUR name parser (the table supplies code point and name only)."""
    global _SUITES
    if _SUITES is None:
        from tlexport.cipher_suite_parser import cipher_suites
        _SUITES = {}
        for k, v in cipher_suites.items():
            try:
                _SUITES[int.from_bytes(k, "big")] = Suite(int.from_bytes(k, "big"), v)
            except UnsupportedName:
                pass
    return _SUITES


_COMBOS = None


def all_combos():
    """[(suite_code, version, etm)] every table suite x valid version x EtM applicability"""
    global _COMBOS
    if _COMBOS is not None:
        return _COMBOS
    out = []
    for code, s in sorted(load_suites().items()):
        for v in s.versions():
            out.append((code, v, False))
            if s.kind == "cbc" and v != SSL30:
                out.append((code, v, True))
    _COMBOS = out
    return out
