"""Independent (no dpkt / scapy) frame builders, pcap / pcapng writers and a strict reader of TLExport's output."""
import struct
from fractions import Fraction
from ipaddress import ip_address


def csum16(data: bytes) -> int:
    if len(data) % 2:
        data += b"\x00"
    s = sum(struct.unpack("!%dH" % (len(data) // 2), data))
    while s >> 16:
        s = (s & 0xFFFF) + (s >> 16)
    return (~s) & 0xFFFF


def build_frame(src_mac, dst_mac, src_ip, dst_ip, proto, l4_wo_csum: bytes, csum_off: int, *, bad_csum=False, ttl=64, ip_id=0, wire=None):
    """l4_wo_csum has checksum field zero at csum_off; returns full Ethernet frame.
    wire: optional on-the-wire decorations {"vlan": vid, "ip4opt": n NOP option bytes (multiple of 4), "ip6ext": n 8-byte extension headers
    (hop-by-hop first, then destination options), "pad": True = short frames padded to 60 bytes as on real Ethernet}"""
    wire = wire or {}
    sip = ip_address(src_ip)
    dip = ip_address(dst_ip)
    v6 = sip.version == 6
    if v6:
        pseudo = sip.packed + dip.packed + struct.pack("!IxxxB", len(l4_wo_csum), proto)
    else:
        pseudo = sip.packed + dip.packed + struct.pack("!BBH", 0, proto, len(l4_wo_csum))
    c = csum16(pseudo + l4_wo_csum)
    if proto == 17 and c == 0:
        c = 0xFFFF
    if bad_csum:
        # perturb the field by a delta that is not 0 in one's-complement arithmetic (0x0000 and 0xFFFF are the same number)
        delta = 1 if bad_csum is True else int(bad_csum)
        c2 = (c + delta) & 0xFFFF
        while c2 % 0xFFFF == c % 0xFFFF or (proto == 17 and c2 == 0 and not v6):
            c2 = (c2 + 1) & 0xFFFF
        c = c2
    l4 = l4_wo_csum[:csum_off] + struct.pack("!H", c) + l4_wo_csum[csum_off + 2:]
    if v6:
        ext, nxt = b"", proto
        for k in reversed(range(wire.get("ip6ext", 0))):
            # 8-byte options header: next header, length 0, PadN option of 4 data bytes; the first one is hop-by-hop (0), later ones destination options (60)
            ext = struct.pack("!BBBB4x", nxt, 0, 1, 4) + ext
            nxt = 0 if k == 0 else 60
        ip = struct.pack("!IHBB", 0x60000000, len(ext) + len(l4), nxt, ttl) + sip.packed + dip.packed + ext
        etype = 0x86DD
    else:
        opts = b"\x01" * wire.get("ip4opt", 0)
        hdr = struct.pack("!BBHHHBBH", 0x40 | (5 + len(opts) // 4), 0, 20 + len(opts) + len(l4), ip_id & 0xFFFF, 0x4000, ttl, proto, 0) + sip.packed + dip.packed + opts
        hc = csum16(hdr)
        ip = hdr[:10] + struct.pack("!H", hc) + hdr[12:]
        etype = 0x0800
    tag = struct.pack("!HH", 0x8100, wire["vlan"] & 0x0FFF) if wire.get("vlan") else b""
    frame = dst_mac + src_mac + tag + struct.pack("!H", etype) + ip + l4
    if wire.get("pad") and len(frame) < 60:
        frame += b"\x00" * (60 - len(frame))
    return frame


def unfolded_sum(src_ip, dst_ip, proto, l4_wo_csum: bytes) -> int:
    """sum of all 16-bit words of pseudo header + segment (checksum field zero), NOT folded"""
    sip, dip = ip_address(src_ip), ip_address(dst_ip)
    if sip.version == 6:
        pseudo = sip.packed + dip.packed + struct.pack("!IxxxB", len(l4_wo_csum), proto)
    else:
        pseudo = sip.packed + dip.packed + struct.pack("!BBH", 0, proto, len(l4_wo_csum))
    d = pseudo + l4_wo_csum
    if len(d) % 2:
        d += b"\x00"
    return sum(struct.unpack("!%dH" % (len(d) // 2), d))


def tcp_frame(src_mac, dst_mac, src_ip, dst_ip, sport, dport, seq, ack, flags, payload, steer=None, **kw):
    """steer = (window, urgent pointer): free header fields used to drive the checksum to a chosen value"""
    win, urg = steer if steer else (65535, 0)
    wire = kw.get("wire") or {}
    topt = b""
    if wire.get("tcpopt"):      # NOP NOP timestamps (the usual 12 bytes) or plain NOP padding
        topt = (b"\x01\x01\x08\x0a" + struct.pack("!II", seq & 0xFFFFFFFF ^ 0x5A5A5A5A, ack & 0xFFFFFFFF) if wire["tcpopt"] == 12 else b"\x01" * wire["tcpopt"])
    tcp = struct.pack("!HHIIBBHHH", sport, dport, seq & 0xFFFFFFFF, ack & 0xFFFFFFFF, (5 + len(topt) // 4) << 4, flags, win & 0xFFFF, 0, urg & 0xFFFF) + topt + payload
    return build_frame(src_mac, dst_mac, src_ip, dst_ip, 6, tcp, 16, **kw)


def udp_frame(src_mac, dst_mac, src_ip, dst_ip, sport, dport, payload, **kw):
    udp = struct.pack("!HHHH", sport, dport, 8 + len(payload), 0) + payload
    return build_frame(src_mac, dst_mac, src_ip, dst_ip, 17, udp, 6, **kw)


# ---------------------------------------------------------------- writers
def _pad4(b):
    return b + b"\x00" * (-len(b) % 4)


def _opt(code, val, e):
    return struct.pack(e + "HH", code, len(val)) + _pad4(val)


def pcapng_block(btype, body, e="<"):
    total = 12 + len(_pad4(body))
    return struct.pack(e + "II", btype, total) + _pad4(body) + struct.pack(e + "I", total)


def write_pcapng(path, items, *, endian="<", tsresol=6, tsoffset=0, snaplen=0, offset_first=False, pre_idb=(), ifaces=1, late_idb=False, idle_first=None, section_length=False, packet_blocks=None):
    """items: list of ('pkt', ts_us:int, frame) | ('dsb', text_bytes) | ('raw', btype, body)
    ts_us is integer microseconds since epoch; converted exactly to the chosen resolution when possible."""
    e = endian
    out = bytearray()
    shb = struct.pack(e + "IHHq", 0x1A2B3C4D, 1, 0, -1)
    out += pcapng_block(0x0A0D0D0A, shb, e)
    opts = b""
    o_res = _opt(9, bytes([tsresol]), e) if tsresol != 6 else b""
    o_off = _opt(14, struct.pack(e + "q", tsoffset), e) if tsoffset else b""
    opts = (o_off + o_res) if offset_first else (o_res + o_off)        # options may come in any order
    if opts:
        opts += struct.pack(e + "HH", 0, 0)
    idb = struct.pack(e + "HHI", 1, 0, snaplen) + opts
    for it in pre_idb:          # blocks between the section header and the interface description (only DSBs / raw blocks make sense there)
        if it[0] == "dsb":
            out += pcapng_block(10, struct.pack(e + "II", 0x544C534B, len(it[1])) + it[1], e)
        elif it[0] == "raw":
            out += pcapng_block(it[1], it[2], e)
    shift = 0
    if idle_first is not None and not any(it[0] == "spb" for it in items):
        # interface 0 is one on which nothing was captured, of another link type (loopback, Linux cooked, ...), with the same time
        # parameters; every packet refers to a later interface
        out += pcapng_block(1, struct.pack(e + "HHI", idle_first, 0, snaplen) + opts, e)
        shift = 1
    out += pcapng_block(1, idb, e)
    # further interfaces with the same time parameters (a capture on several interfaces); packet i belongs to interface i % ifaces; their
    # description blocks follow the first one, or (late_idb) come right before the first packet that refers to them
    described = 1
    if not late_idb:
        for _ in range(1, ifaces):
            out += pcapng_block(1, idb, e)
        described = ifaces
    npkt = 0
    for it in items:
        if it[0] == "pkt":
            ifid = npkt % ifaces
            npkt += 1
            while described <= ifid:
                out += pcapng_block(1, idb, e)
                described += 1
            _, ts_us, frame = it
            # ts_us: int microseconds, or Fraction seconds (exact); converted to the interface's unit by floor
            sec = Fraction(ts_us, 1_000_000) if isinstance(ts_us, int) else Fraction(ts_us)
            sec -= tsoffset
            per_s = (1 << (tsresol & 0x7F)) if tsresol & 0x80 else 10 ** tsresol
            units = int(sec * per_s)
            if packet_blocks and (npkt - 1) % packet_blocks[0] == packet_blocks[1] % packet_blocks[0]:
                # the obsolete Packet Block (type 2): 16-bit interface id, 16-bit drops count (0xFFFF = unknown), then as in the EPB
                body = struct.pack(e + "HHIIII", ifid + shift, packet_blocks[2], units >> 32, units & 0xFFFFFFFF, len(frame), len(frame)) + frame
                out += pcapng_block(2, body, e)
                continue
            body = struct.pack(e + "IIIII", ifid + shift, units >> 32, units & 0xFFFFFFFF, len(frame), len(frame)) + frame
            out += pcapng_block(6, body, e)
        elif it[0] == "idb":         # a further interface (no packet refers to it) with time parameters of its own
            _, r_, o_ = it
            oo = (_opt(9, bytes([r_]), e) if r_ != 6 else b"") + (_opt(14, struct.pack(e + "q", o_), e) if o_ else b"")
            if oo:
                oo += struct.pack(e + "HH", 0, 0)
            out += pcapng_block(1, struct.pack(e + "HHI", 1, 0, snaplen) + oo, e)
        elif it[0] == "spb":        # Simple Packet Block: original length + data, no interface id, no timestamp
            out += pcapng_block(3, struct.pack(e + "I", len(it[1])) + it[1], e)
        elif it[0] == "dsb":
            body = struct.pack(e + "II", 0x544C534B, len(it[1])) + it[1]
            out += pcapng_block(10, body, e)
        elif it[0] == "raw":
            out += pcapng_block(it[1], it[2], e)
    if section_length:
        # the Section Header Block states the real length of the section (bytes FOLLOWING the SHB) instead of -1 "unspecified"
        shb_len = struct.unpack(e + "I", out[4:8])[0]
        out[16:24] = struct.pack(e + "q", len(out) - shb_len)
    with open(path, "wb") as f:
        f.write(out)


def write_pcap(path, items, *, endian="<", nano=False):
    e = endian
    magic = 0xA1B23C4D if nano else 0xA1B2C3D4
    out = bytearray(struct.pack(e + "IHHiIII", magic, 2, 4, 0, 0, 262144, 1))
    for it in items:
        if it[0] != "pkt":
            continue
        _, ts_us, frame = it
        t = Fraction(ts_us, 1_000_000) if isinstance(ts_us, int) else Fraction(ts_us)
        unit = 10 ** 9 if nano else 10 ** 6
        sec, sub = divmod(int(t * unit), unit)          # exact for times that are multiples of the file's unit, floored otherwise
        out += struct.pack(e + "IIII", sec, sub, len(frame), len(frame)) + frame
    with open(path, "wb") as f:
        f.write(out)


# ---------------------------------------------------------------- strict reader of TLExport output
class BadOutput(Exception):
    pass


def read_pcapng_strict(path):
    data = open(path, "rb").read()
    pos = 0
    pkts = []
    e = None
    n_idb = 0
    tsdiv = 10 ** 6
    while pos < len(data):
        if len(data) - pos < 12:
            raise BadOutput("trailing bytes")
        if e is None:
            bt = struct.unpack_from("<I", data, pos)[0]
            if bt != 0x0A0D0D0A:
                raise BadOutput("first block not SHB")
            bom = struct.unpack_from("<I", data, pos + 8)[0]
            e = "<" if bom == 0x1A2B3C4D else ">" if bom == 0x4D3C2B1A else None
            if e is None:
                raise BadOutput("bad BOM")
        bt, bl = struct.unpack_from(e + "II", data, pos)
        if bl % 4 or bl < 12 or pos + bl > len(data):
            raise BadOutput(f"bad block length {bl}")
        if struct.unpack_from(e + "I", data, pos + bl - 4)[0] != bl:
            raise BadOutput("trailer length mismatch")
        body = data[pos + 8:pos + bl - 4]
        if bt == 1:
            n_idb += 1
            link, _, snap = struct.unpack_from(e + "HHI", body, 0)
            if link != 1:
                raise BadOutput("linktype not ethernet")
            o = 8
            while o + 4 <= len(body):
                code, ln = struct.unpack_from(e + "HH", body, o)
                if code == 0:
                    break
                if code == 9:
                    r = body[o + 4]
                    tsdiv = 2 ** (r & 0x7F) if r & 0x80 else 10 ** r
                o += 4 + ln + (-ln % 4)
        elif bt == 6:
            if n_idb == 0:
                raise BadOutput("EPB before IDB")
            ifid, th, tl, cap, orig = struct.unpack_from(e + "IIIII", body, 0)
            if ifid >= n_idb:
                raise BadOutput("bad interface id")
            if 20 + cap > len(body) or cap > orig:
                raise BadOutput("bad caplen")
            units = (th << 32) | tl
            ts_us = units * 1_000_000 // tsdiv
            pkts.append((ts_us, body[20:20 + cap]))
        pos += bl
    if e is None:
        raise BadOutput("empty file")
    return pkts


class Pkt:
    __slots__ = "ts smac dmac v6 sip dip proto sport dport seq ack flags payload".split()

    def __repr__(self):
        return f"<{self.ts} {self.sip}:{self.sport}>{self.dip}:{self.dport} p{self.proto} seq={getattr(self,'seq',None)} fl={getattr(self,'flags',None)} len={len(self.payload)}>"


def parse_frame_strict(ts, fr):
    p = Pkt()
    p.ts = ts
    if len(fr) < 14:
        raise BadOutput(f"short ethernet frame ({len(fr)} bytes)")
    p.dmac, p.smac = fr[0:6], fr[6:12]
    et = struct.unpack("!H", fr[12:14])[0]
    ip = fr[14:]
    if et == 0x0800:
        p.v6 = False
        if len(ip) < 20 or ip[0] != 0x45:
            raise BadOutput("bad ipv4 header")
        tot = struct.unpack("!H", ip[2:4])[0]
        if tot != len(ip):
            raise BadOutput(f"ipv4 total length {tot} != {len(ip)}")
        if csum16(ip[:20]) != 0:
            raise BadOutput("bad ipv4 header checksum")
        p.proto = ip[9]
        p.sip, p.dip = ip[12:16], ip[16:20]
        l4 = ip[20:]
        pseudo = p.sip + p.dip + struct.pack("!BBH", 0, p.proto, len(l4))
    elif et == 0x86DD:
        p.v6 = True
        if len(ip) < 40 or ip[0] >> 4 != 6:
            raise BadOutput("bad ipv6 header")
        pl = struct.unpack("!H", ip[4:6])[0]
        if pl != len(ip) - 40:
            raise BadOutput("ipv6 payload length mismatch")
        p.proto = ip[6]
        p.sip, p.dip = ip[8:24], ip[24:40]
        l4 = ip[40:]
        pseudo = p.sip + p.dip + struct.pack("!IxxxB", len(l4), p.proto)
    else:
        raise BadOutput(f"ethertype {et:#x}")
    if p.proto == 6:
        if len(l4) < 20:
            raise BadOutput("short tcp")
        p.sport, p.dport, p.seq, p.ack, off, p.flags = struct.unpack("!HHIIBB", l4[:14])
        hl = (off >> 4) * 4
        if hl < 20 or hl > len(l4):
            raise BadOutput("bad tcp data offset")
        p.payload = l4[hl:]
        if csum16(pseudo + l4) != 0:
            raise BadOutput("bad tcp checksum")
    elif p.proto == 17:
        if len(l4) < 8:
            raise BadOutput("short udp")
        p.sport, p.dport, ul, cs = struct.unpack("!HHHH", l4[:8])
        if ul != len(l4):
            raise BadOutput("udp length mismatch")
        p.payload = l4[8:]
        p.seq = p.ack = p.flags = None
        if cs == 0 and p.v6:
            raise BadOutput("udp6 zero checksum")
        if cs != 0 and csum16(pseudo + l4) != 0:
            raise BadOutput("bad udp checksum")
    else:
        raise BadOutput(f"ip proto {p.proto}")
    return p


def read_output(path):
    return [parse_frame_strict(ts, fr) for ts, fr in read_pcapng_strict(path)]
