"""Independent QUIC v1 reference encoder (RFC 9000 / 9001 / 9221).

Own HKDF, varints, frames, long / short headers, AEAD + header protection, key update, Retry, 0-RTT, coalescing; the
RFC 9000 Appendix A.3 packet-number decoder (oracle of C16).  `cryptography` is used only for the AES-ECB / ChaCha20 /
AEAD primitives.  A connection is built from a JSON-serialisable spec, bulk bytes come from random.Random(spec["seed"]).
"""
import hashlib
import random
import struct
import warnings

warnings.simplefilter("ignore")
from cryptography.hazmat.primitives.ciphers import Cipher, algorithms, modes  # noqa: E402
from cryptography.hazmat.primitives.ciphers.aead import AESGCM, AESCCM, ChaCha20Poly1305  # noqa: E402
from tlsref import hkdf_expand_label, hkdf_extract, hs, ext, rbytes  # noqa: E402

SALT_V1 = bytes.fromhex("38762cf7f55934b34d179ae6a4c80cadccbb7f0a")
SUITES = {0x1301: ("gcm", 16, "sha256"), 0x1302: ("gcm", 32, "sha384"), 0x1303: ("chacha", 32, "sha256"), 0x1304: ("ccm", 16, "sha256")}


def varint(v, width=None):
    need = 1 if v < 64 else 2 if v < 16384 else 4 if v < (1 << 30) else 8
    w = width or need
    if w < need:
        w = need
    return (v | ({1: 0, 2: 1, 4: 2, 8: 3}[w] << (8 * w - 2))).to_bytes(w, "big")


class Keys:
    def __init__(self, alg, klen, h, secret):
        self.alg, self.klen, self.h, self.secret = alg, klen, h, secret
        self.key = hkdf_expand_label(h, secret, b"quic key", b"", klen)
        self.iv = hkdf_expand_label(h, secret, b"quic iv", b"", 12)
        self.hp = hkdf_expand_label(h, secret, b"quic hp", b"", klen)

    def next_gen(self):
        hl = hashlib.new(self.h).digest_size
        k = Keys(self.alg, self.klen, self.h, hkdf_expand_label(self.h, self.secret, b"quic ku", b"", hl))
        k.hp = self.hp          # RFC 9001 6: the header protection key is not updated
        return k

    def seal(self, pn, header, payload):
        nonce = bytes(a ^ b for a, b in zip(self.iv, pn.to_bytes(12, "big")))
        if self.alg == "gcm":
            return AESGCM(self.key).encrypt(nonce, payload, header)
        if self.alg == "ccm":
            return AESCCM(self.key, tag_length=16).encrypt(nonce, payload, header)
        return ChaCha20Poly1305(self.key).encrypt(nonce, payload, header)

    def mask(self, sample):
        if self.alg == "chacha":
            e = Cipher(algorithms.ChaCha20(self.hp, sample), mode=None).encryptor()
            return e.update(b"\x00" * 5)
        e = Cipher(algorithms.AES(self.hp), modes.ECB()).encryptor()
        return e.update(sample)[:5]


def initial_keys(dcid):
    init = hkdf_extract("sha256", SALT_V1, dcid)
    c = hkdf_expand_label("sha256", init, b"client in", b"", 32)
    s = hkdf_expand_label("sha256", init, b"server in", b"", 32)
    return {False: Keys("gcm", 16, "sha256", c), True: Keys("gcm", 16, "sha256", s)}


def rfc_decode_pn(largest, truncated, nbits):
    """RFC 9000 Appendix A.3 DecodePacketNumber, transcribed (integer arithmetic)."""
    expected = largest + 1
    win = 1 << nbits
    hwin = win // 2
    mask = win - 1
    cand = (expected & ~mask) | truncated
    if cand <= expected - hwin and cand < (1 << 62) - win:
        return cand + win
    if cand > expected + hwin and cand >= win:
        return cand - win
    return cand


# ------------------------------------------------------------------ frames (encoders; `w` forces a varint width)
def f_padding(n): return b"\x00" * n
def f_ping(): return b"\x01"


def f_ack(largest=0, delay=0, first=0, ranges=(), ecn=None, w=None):
    b = bytes([3 if ecn else 2]) + varint(largest, w) + varint(delay, w) + varint(len(ranges), w) + varint(first, w)
    for g, ln in ranges:
        b += varint(g, w) + varint(ln, w)
    if ecn:
        b += b"".join(varint(x, w) for x in ecn)
    return b


def f_reset_stream(sid, code, final, w=None): return b"\x04" + varint(sid, w) + varint(code, w) + varint(final, w)
def f_stop_sending(sid, code, w=None): return b"\x05" + varint(sid, w) + varint(code, w)
def f_crypto(off, data, w=None): return b"\x06" + varint(off, w) + varint(len(data), w) + data
def f_new_token(tok, w=None): return b"\x07" + varint(len(tok), w) + tok


def f_stream(sid, data, off=None, fin=False, has_len=True, w=None):
    t = 0x08 | (4 if off is not None else 0) | (2 if has_len else 0) | (1 if fin else 0)
    b = bytes([t]) + varint(sid, w)
    if off is not None:
        b += varint(off, w)
    if has_len:
        b += varint(len(data), w)
    return b + data


def f_max_data(v, w=None): return b"\x10" + varint(v, w)
def f_max_stream_data(sid, v, w=None): return b"\x11" + varint(sid, w) + varint(v, w)
def f_max_streams(v, uni=False, w=None): return bytes([0x13 if uni else 0x12]) + varint(v, w)
def f_data_blocked(v, w=None): return b"\x14" + varint(v, w)
def f_stream_data_blocked(sid, v, w=None): return b"\x15" + varint(sid, w) + varint(v, w)
def f_streams_blocked(v, uni=False, w=None): return bytes([0x17 if uni else 0x16]) + varint(v, w)
def f_new_cid(seq, retire, cid, token, w=None, w2=None):
    # w: width of Sequence Number, w2: width of Retire Prior To (default: the same)
    return b"\x18" + varint(seq, w) + varint(retire, w if w2 is None else (w2 or None)) + bytes([len(cid)]) + cid + token
def f_retire_cid(seq, w=None): return b"\x19" + varint(seq, w)
def f_path_challenge(d): return b"\x1a" + d
def f_path_response(d): return b"\x1b" + d


def f_conn_close(code=0, ftype=0, reason=b"", app=False, w=None):
    return (b"\x1d" + varint(code, w) if app else b"\x1c" + varint(code, w) + varint(ftype, w)) + varint(len(reason), w) + reason


def f_handshake_done(): return b"\x1e"
def f_datagram(data, has_len=True, w=None): return (b"\x31" + varint(len(data), w) + data) if has_len else (b"\x30" + data)


def encode_frame(fd, rnd, ctx=None):
    """frame descriptor (JSON list) -> (bytes, truth dict).  Descriptors:
    ["pad", n] ["ping"] ["ack", largest, delay, first, [[gap,len]..], ecn|None, w] ["reset", sid, code, final, w]
    ["stop", sid, code, w] ["crypto", off, len, w] ["token", len, w] ["stream", sid, len, off|None, fin, has_len, w]
    ["maxdata", v, w] ["maxsd", sid, v, w] ["maxstreams", v, uni, w] ["blocked", v, w] ["sblocked", sid, v, w]
    ["ssblocked", v, uni, w] ["ncid", seq, retire, cidlen, w] ["rcid", seq, w] ["pc"] ["pr"] ["close", code, ftype, rlen, app, w]
    ["hsdone"] ["dgram", len, has_len, w]
    """
    k = fd[0]
    if k == "pad":
        return f_padding(fd[1]), {"t": 0x00, "n": fd[1]}
    if k == "ping":
        return f_ping(), {"t": 0x01}
    if k == "ack":
        _, largest, delay, first, ranges, ecn, w = fd
        return f_ack(largest, delay, first, [tuple(r) for r in ranges], ecn, w), {"t": 3 if ecn else 2, "largest": largest, "delay": delay,
                                                                                 "first": first, "ranges": [list(r) for r in ranges], "ecn": ecn}
    if k == "reset":
        return f_reset_stream(fd[1], fd[2], fd[3], fd[4]), {"t": 4, "sid": fd[1], "code": fd[2], "final": fd[3]}
    if k == "stop":
        return f_stop_sending(fd[1], fd[2], fd[3]), {"t": 5, "sid": fd[1], "code": fd[2]}
    if k == "crypto":
        d = rbytes(rnd, fd[2])
        return f_crypto(fd[1], d, fd[3]), {"t": 6, "off": fd[1], "data": d}
    if k == "token":
        d = rbytes(rnd, fd[1])
        return f_new_token(d, fd[2]), {"t": 7, "data": d}
    if k == "stream":
        _, sid, ln, off, fin, has_len, w = fd
        d = rbytes(rnd, ln)
        b = f_stream(sid, d, off, fin, has_len, w)
        return b, {"t": b[0], "sid": sid, "off": off or 0, "fin": bool(fin), "data": d}
    if k == "maxdata":
        return f_max_data(fd[1], fd[2]), {"t": 0x10, "v": fd[1]}
    if k == "maxsd":
        return f_max_stream_data(fd[1], fd[2], fd[3]), {"t": 0x11, "sid": fd[1], "v": fd[2]}
    if k == "maxstreams":
        return f_max_streams(fd[1], fd[2], fd[3]), {"t": 0x13 if fd[2] else 0x12, "v": fd[1]}
    if k == "blocked":
        return f_data_blocked(fd[1], fd[2]), {"t": 0x14, "v": fd[1]}
    if k == "sblocked":
        return f_stream_data_blocked(fd[1], fd[2], fd[3]), {"t": 0x15, "sid": fd[1], "v": fd[2]}
    if k == "ssblocked":
        return f_streams_blocked(fd[1], fd[2], fd[3]), {"t": 0x17 if fd[2] else 0x16, "v": fd[1]}
    if k == "ncid":
        cid = rbytes(rnd, fd[3])
        tok = rbytes(rnd, 16)
        return f_new_cid(fd[1], fd[2], cid, tok, fd[4]), {"t": 0x18, "seq": fd[1], "retire": fd[2], "cid": cid, "token": tok}
    if k == "rcid":
        return f_retire_cid(fd[1], fd[2]), {"t": 0x19, "seq": fd[1]}
    if k == "pc":
        d = rbytes(rnd, 8)
        return f_path_challenge(d), {"t": 0x1a, "data": d}
    if k == "pr":
        d = rbytes(rnd, 8)
        return f_path_response(d), {"t": 0x1b, "data": d}
    if k == "close":
        _, code, ftype, rlen, app, w = fd
        r = rbytes(rnd, rlen)
        return f_conn_close(code, ftype, r, app, w), {"t": 0x1d if app else 0x1c, "code": code, "ftype": None if app else ftype, "reason": r}
    if k == "hsdone":
        return f_handshake_done(), {"t": 0x1e}
    if k == "dgram":
        d = rbytes(rnd, fd[1])
        return f_datagram(d, fd[2], fd[3]), {"t": 0x31 if fd[2] else 0x30, "data": d}
    raise ValueError(fd)


# ------------------------------------------------------------------ connection
DEFAULT_QUIC_SPEC = dict(
    kind="quic", seed=1, suite=0x1301, offered=None, dcid_len=8, c_scid_len=8, s_scid_len=8,
    retry=False, token_len=0, hs_gaps=None, early=0, early_late=0, half_rtt=0, ch_retx=0, early_suite=None, split_ch=0, ch_shuffle=False, split_shs=0, cert_len=600,
    hs_coalesce=True,         # server Initial+Handshake (and client Initial+Handshake) in one datagram
    steps=[],                 # application-phase history, see QuicConn._step
)


class _P(bytes):
    """protected packet bytes + the CRYPTO / STREAM data it carries in frame order: [("c"|"s", data), ...]"""
    parts = ()


class QuicConn:
    """.datagrams  [(is_server, udp_payload, [stream chunks carried, in order])]
       .keylog     NSS key-log lines"""

    def __init__(self, spec):
        sp = dict(DEFAULT_QUIC_SPEC)
        sp.update(spec)
        self.spec = sp
        rnd = self.rnd = random.Random(sp["seed"])
        self.suite = suite = sp["suite"]
        alg, klen, h = SUITES[suite]
        self.alg, self.klen, self.h = alg, klen, h
        self.odcid = rbytes(rnd, sp["dcid_len"])
        self.c_scid = rbytes(rnd, sp["c_scid_len"])
        self.s_scid = rbytes(rnd, sp["s_scid_len"])
        if sp.get("share_cids"):
            # endpoints choose their connection IDs independently of one another: connections with the same share_cids value (and
            # lengths) happen to use the same source connection IDs (the original DCID, and with it the Initial keys, stay their own)
            r2 = random.Random(sp["share_cids"])
            self.c_scid = rbytes(r2, sp["c_scid_len"])
            self.s_scid = rbytes(r2, sp["s_scid_len"])
        self.cr = rbytes(rnd, 32)
        self.paths = []            # per datagram: index of the client's network path (0 = the one the connection started on)
        self.path = 0
        self.offered = list(sp["offered"] or [suite])
        self.excluded = 0
        if sp["early"] and self.offered[0] != suite and not sp.get("allow_early_suite_not_first"):
            # open finding F10: 0-RTT keys are derived from the FIRST offered suite until the ServerHello is seen
            self.offered.remove(suite)
            self.offered.insert(0, suite)
            self.excluded += 1
        hl = hashlib.new(h).digest_size
        self.sec = {k: rbytes(rnd, hl) for k in ("chs", "shs", "cap", "sap")}
        cr = self.cr.hex()
        self.keylog = [f"CLIENT_HANDSHAKE_TRAFFIC_SECRET {cr} {self.sec['chs'].hex()}", f"SERVER_HANDSHAKE_TRAFFIC_SECRET {cr} {self.sec['shs'].hex()}",
                       f"CLIENT_TRAFFIC_SECRET_0 {cr} {self.sec['cap'].hex()}", f"SERVER_TRAFFIC_SECRET_0 {cr} {self.sec['sap'].hex()}"]
        self.keys = {"initial": initial_keys(self.odcid),
                     "handshake": {False: Keys(alg, klen, h, self.sec["chs"]), True: Keys(alg, klen, h, self.sec["shs"])},
                     "app": {False: [Keys(alg, klen, h, self.sec["cap"])], True: [Keys(alg, klen, h, self.sec["sap"])]}}
        self.initial_history = [("odcid", self.odcid)]
        if sp["early"]:
            ealg, eklen, eh = SUITES[sp["early_suite"] or suite]
            es = rbytes(rnd, hashlib.new(eh).digest_size)
            self.early_secret = es
            self.keylog.append(f"CLIENT_EARLY_TRAFFIC_SECRET {cr} {es.hex()}")
            self.keys["early"] = {False: Keys(ealg, eklen, eh, es)}
        self.largest = {}          # (space, dir) -> largest pn an observer of the capture has seen
        self.next_pn = {}
        self.gen = {False: 0, True: 0}
        self._hs_count = 0
        self.sent_gen = {False: set(), True: set()}     # key generations in which each side has sent a 1-RTT packet
        self.dcid_for = {False: self.odcid, True: self.c_scid}   # DCID used by sender dir
        self.issued = {False: [], True: []}                        # CIDs issued BY dir (for use by the peer)
        self.token = b""
        self.datagrams = []
        self.meta = []             # per datagram: CRYPTO and STREAM data in frame order [("c"|"s", data), ...]
        self.pkt_log = []          # (is_server, kind, pn, pn_len, gen) per packet, for C15/C16 observation
        self.features = set()
        self._handshake()
        self.app_start = len(self.datagrams)
        for st in sp["steps"]:
            self._step(st)

    # ---- TLS messages
    def client_hello(self, alpn=b"h3", tp=b"\x01\x02\x40\x64"):
        exts = ext(0x002B, b"\x02\x03\x04") + ext(0x0010, struct.pack("!HB", len(alpn) + 1, len(alpn)) + alpn) + ext(0x0039, tp) + \
            ext(0x0033, struct.pack("!H", 36) + struct.pack("!HH", 29, 32) + rbytes(self.rnd, 32))
        cs = b"".join(struct.pack("!H", c) for c in self.offered)
        body = b"\x03\x03" + self.cr + b"\x00" + struct.pack("!H", len(cs)) + cs + b"\x01\x00" + struct.pack("!H", len(exts)) + exts
        return hs(1, body)

    def server_hello(self):
        exts = ext(0x002B, b"\x03\x04") + ext(0x0033, struct.pack("!HH", 29, 32) + rbytes(self.rnd, 32))
        body = b"\x03\x03" + rbytes(self.rnd, 32) + b"\x00" + struct.pack("!H", self.spec.get("sh_suite") or self.suite) + b"\x00" + struct.pack("!H", len(exts)) + exts
        return hs(2, body)

    def server_hs_flight(self):
        hl = hashlib.new(self.h).digest_size
        ee_ext = ext(0x0010, b"\x00\x03\x02h3") + ext(0x0039, b"\x01\x02\x40\x64")
        return hs(8, struct.pack("!H", len(ee_ext)) + ee_ext) + hs(11, rbytes(self.rnd, self.spec["cert_len"])) + hs(15, rbytes(self.rnd, 70)) + hs(20, rbytes(self.rnd, hl))

    # ---- packets
    def _pn(self, space, srv, pn, pn_len):
        k = (space, srv)
        if pn is None:
            pn = self.next_pn.get(k, 0)
        self.next_pn[k] = pn + 1
        largest = self.largest.get(k)
        base = largest if largest is not None else -1
        ok = [n for n in (1, 2, 3, 4) if rfc_decode_pn(base, pn & ((1 << 8 * n) - 1), 8 * n) == pn]
        if not ok:
            raise ValueError("packet number not encodable in 4 bytes relative to what was captured")
        if pn_len not in ok:
            pn_len = min([n for n in ok if n >= (pn_len or 0)] or ok)
        if largest is None or pn > largest:
            self.largest[k] = pn
        return pn, pn_len

    def packet(self, kind, srv, frames: bytes, pn=None, pn_len=None, dcid=None, scid=None, spin=None, parts=()):
        """kind in initial|handshake|early|app -> protected packet bytes"""
        space = {"initial": "i", "handshake": "h", "early": "a", "app": "a"}[kind]
        if pn_len is None and kind != "app":
            pn_len = self.spec.get("hs_pnl") or None       # encoded packet-number length of long-header packets (1..4)
        if pn is None and kind != "app" and self.spec.get("hs_gaps"):
            # senders may skip packet numbers (RFC 9000 21.4): gaps before handshake-phase packets, also across a Retry
            g = self.spec["hs_gaps"]
            gap = g[self._hs_count % len(g)]
            self._hs_count += 1
            if gap:
                pn = self.next_pn.get((space, srv), 0) + gap
                self.features.add("hs_pn_gap")
        pn, pn_len = self._pn(space, srv, pn, pn_len)
        if len(frames) + pn_len < 4:       # header-protection sample needs 4 bytes of pn+payload before it
            frames = b"\x00" * (4 - pn_len - len(frames)) + frames   # PADDING in front: a LEN-less STREAM frame runs to the end
        pnb = (pn & ((1 << 8 * pn_len) - 1)).to_bytes(pn_len, "big")
        dcid = self.dcid_for[srv] if dcid is None else dcid
        gen = None
        if kind == "app":
            gen = self.gen[srv]
            self.sent_gen[srv].add(gen)
            g = self.keys["app"][srv]
            while len(g) <= gen:
                g.append(g[-1].next_gen())
            keys = g[gen]
            sp = self.rnd.getrandbits(1) if spin is None else spin
            first = 0x40 | (sp << 5) | ((gen & 1) << 2) | (pn_len - 1)
            hdr = bytes([first]) + dcid
        else:
            scid = (self.s_scid if srv else self.c_scid) if scid is None else scid
            t = {"initial": 0, "early": 1, "handshake": 2}[kind]
            first = 0xC0 | (t << 4) | (pn_len - 1)
            hdr = bytes([first]) + b"\x00\x00\x00\x01" + bytes([len(dcid)]) + dcid + bytes([len(scid)]) + scid
            if kind == "initial":
                tok = self.token if not srv else b""
                hdr += varint(len(tok)) + tok
            hdr += varint(pn_len + len(frames) + 16, 2)
            keys = self.keys[kind][srv]
        pn_off = len(hdr)
        hdr += pnb
        while True:
            ct = keys.seal(pn, hdr, frames)
            pkt = bytearray(hdr + ct)
            sample = bytes(pkt[pn_off + 4: pn_off + 20])
            mask = keys.mask(sample)
            pkt[0] ^= mask[0] & (0x1F if kind == "app" else 0x0F)
            for i in range(pn_len):
                pkt[pn_off + i] ^= mask[1 + i]
            if kind == "app" and not dcid and any(c and bytes(pkt[1:1 + len(c)]) == c for c in self.all_cids()):
                # a short-header packet with a zero-length DCID whose first protected bytes spell another (short) connection
                # ID of the connection (former finding F31, fixed): recorded as a feature so that checks can aim at it
                self.features.add("cid_coincidence")
            break
        self.pkt_log.append({"srv": srv, "kind": kind, "pn": pn, "pn_len": pn_len, "gen": gen, "key": keys.key, "iv": keys.iv, "hp": keys.hp})
        out = _P(pkt)
        out.parts = list(parts)
        return out

    def all_cids(self):
        out = {self.odcid, self.c_scid, self.s_scid} | set(self.issued[False]) | set(self.issued[True])
        out |= {c for _, c in self.initial_history}
        return out

    def retry_packet(self, new_scid, token):
        # the integrity tag is not verified by a passive observer; 16 arbitrary bytes
        return bytes([0xF0 | self.rnd.getrandbits(4)]) + b"\x00\x00\x00\x01" + bytes([len(self.c_scid)]) + self.c_scid + \
            bytes([len(new_scid)]) + new_scid + token + rbytes(self.rnd, 16)

    def dgram(self, srv, *pkts, chunks=()):
        self.datagrams.append((srv, b"".join(pkts), list(chunks)))
        self.paths.append(getattr(self, "path", 0))
        self.meta.append([x for p in pkts for x in getattr(p, "parts", ())])

    # ---- handshake according to the spec
    def _crypto_frames(self, data, nsplit, shuffle):
        if not nsplit:
            return [(f_crypto(0, data), ("c", data))]
        nsplit = min(nsplit, len(data) - 1)
        if self.spec.get("split_chunk"):
            # real stacks cut CRYPTO data at fixed (MTU-derived) offsets, the same for every connection
            ch = self.spec["split_chunk"]
            cuts = [k * ch for k in range(1, nsplit + 1) if k * ch < len(data)] or [len(data) // 2]
        else:
            cuts = sorted(self.rnd.sample(range(1, len(data)), nsplit))
        parts, prev = [], 0
        for c in cuts + [len(data)]:
            parts.append((prev, data[prev:c]))
            prev = c
        if shuffle:
            self.rnd.shuffle(parts)
            self.features.add("crypto_ooo")
        self.features.add("crypto_split")
        return [(f_crypto(o, d), ("c", d)) for o, d in parts]

    def _early_extra(self):
        """frames that RFC 9000 12.4 permits in 0-RTT packets besides STREAM, in front of it: spec early_extra is a bit mask
        (1 NEW_CONNECTION_ID - only a client with a non-empty connection ID issues them, 2 MAX_DATA, 4 PING, 8 PATH_CHALLENGE)"""
        m = self.spec.get("early_extra", 0)
        out = b""
        if m & 1 and self.c_scid:
            cid = rbytes(self.rnd, len(self.c_scid))
            self.issued[False].append(cid)
            out += f_new_cid(len(self.issued[False]), 0, cid, rbytes(self.rnd, 16), None, None)
            self.features.add("ncid_in_0rtt")
        if m & 2:
            out += encode_frame(["maxdata", 70000, None], self.rnd)[0]
        if m & 4:
            out += f_ping()
        if m & 8:
            out += encode_frame(["pc"], self.rnd)[0]
        return out

    def _client_initials(self, ch, early_chunks):
        """ClientHello in one or several Initial packets/datagrams, each datagram padded to >= 1200 bytes."""
        sp = self.spec
        frs = self._crypto_frames(ch, sp["split_ch"], sp["ch_shuffle"])
        per_pkt = max(1, -(-len(frs) // 2)) if sp["split_ch"] >= 2 else len(frs)
        groups = [frs[i:i + per_pkt] for i in range(0, len(frs), per_pkt)]
        for gi, g in enumerate(groups):
            fr = b"".join(f for f, _ in g)
            pad = max(0, 1200 - len(fr))
            pk = [self.packet("initial", False, fr + b"\x00" * pad, parts=[p for _, p in g])]
            chunks = []
            if gi == len(groups) - 1 and early_chunks:
                d = early_chunks.pop(0)
                pk.append(self.packet("early", False, self._early_extra() + f_stream(0, d, off=0), parts=[("s", d)]))
                chunks = [d]
                self.features.add("0rtt_coalesced")
            self.dgram(False, *pk, chunks=chunks)
        for _ in range(sp.get("ch_retx", 0)):
            # the client's probe timeout fired: the ClientHello is sent again in a new Initial packet (same CRYPTO offsets and bytes)
            g = groups[-1] if sp.get("ch_retx_last_only") else [x for gg in groups for x in gg]
            fr = b"".join(f for f, _ in g)
            self.dgram(False, self.packet("initial", False, fr + b"\x00" * max(0, 1200 - len(fr)), parts=[p for _, p in g]))
            self.features.add("clienthello_retransmitted")

    def _handshake(self):
        sp, rnd = self.spec, self.rnd
        ch = self.client_hello()
        early_chunks = [rbytes(rnd, 30 + 7 * i) for i in range(sp["early"])]
        if sp.get("token_len") and not sp["retry"]:
            self.token = rbytes(rnd, sp["token_len"])      # a token from a NEW_TOKEN frame of an earlier connection
            self.features.add("token")
        if sp["retry"]:
            self.features.add("retry")
            fr = f_crypto(0, ch)
            self.dgram(False, self.packet("initial", False, fr + b"\x00" * max(0, 1200 - len(fr)), parts=[("c", ch)]))
            new_scid = rbytes(rnd, max(sp["s_scid_len"], 1) if sp["s_scid_len"] else 8)
            tok = rbytes(rnd, sp.get("token_len") or 24)
            self.dgram(True, self.retry_packet(new_scid, tok))
            self.token = tok
            self.keys["initial"] = initial_keys(new_scid)
            self.initial_history.append(("retry", new_scid))
            self.dcid_for[False] = new_scid
            self.s_scid = new_scid
        self._client_initials(ch, early_chunks)
        off = sum(len(c) for c in [])  # 0-RTT stream offset bookkeeping is irrelevant for the export
        # 0-RTT datagrams of the first flight; the last `early_late` of them are captured after the server's first flight (they were sent
        # before the client had the ServerHello, so they still go to the first Destination Connection ID)
        n_late = min(sp.get("early_late", 0), len(early_chunks))
        late_chunks = early_chunks[len(early_chunks) - n_late:]
        early_dcid = self.dcid_for[False]
        for i, d in enumerate(early_chunks[:len(early_chunks) - n_late]):
            self.dgram(False, self.packet("early", False, self._early_extra() + f_stream(0, d, off=1000 * (i + 1)), parts=[("s", d)]), chunks=[d])
            self.features.add("0rtt")
        if sp["early"]:
            self.features.add("0rtt")
        self.dcid_for[False] = self.s_scid

        def between_flights():
            # 0.5-RTT data: the server may send 1-RTT packets right after its handshake flight (RFC 9001 4.1.1 / RFC 8446 4.4.4)
            for i in range(sp.get("half_rtt", 0)):
                d = rbytes(rnd, 25 + 9 * i)
                self.dgram(True, self.packet("app", True, f_stream(3, d, off=500 * i), parts=[("s", d)]), chunks=[d])
                self.features.add("half_rtt")
            for i, d in enumerate(late_chunks):
                self.dgram(False, self.packet("early", False, f_stream(0, d, off=50000 + 1000 * i), dcid=early_dcid, parts=[("s", d)]), chunks=[d])
                self.features.add("0rtt_after_server_flight")
        sh = self.server_hello()
        flight = self.server_hs_flight()
        s_init = self.packet("initial", True, f_ack(0) + f_crypto(0, sh), parts=[("c", sh)])
        hs_frames = self._crypto_frames(flight, sp["split_shs"], False)
        if sp["split_shs"]:
            half = max(1, len(hs_frames) // 2)
            s_hs = [self.packet("handshake", True, b"".join(f for f, _ in hs_frames[:half]), parts=[p for _, p in hs_frames[:half]]),
                    self.packet("handshake", True, b"".join(f for f, _ in hs_frames[half:]), parts=[p for _, p in hs_frames[half:]])]
        else:
            s_hs = [self.packet("handshake", True, b"".join(f for f, _ in hs_frames), parts=[p for _, p in hs_frames])]
        hl = hashlib.new(self.h).digest_size
        c_fin = hs(20, rbytes(rnd, hl))
        if sp["hs_coalesce"]:
            self.features.add("coalesced")
            self.dgram(True, s_init, s_hs[0])
            for p in s_hs[1:]:
                self.dgram(True, p)
            between_flights()
            self.dgram(False, self.packet("initial", False, f_ack(0)), self.packet("handshake", False, f_ack(0) + f_crypto(0, c_fin), parts=[("c", c_fin)]))
        else:
            self.dgram(True, s_init)
            for p in s_hs:
                self.dgram(True, p)
            between_flights()
            self.dgram(False, self.packet("initial", False, f_ack(0) + b"\x00" * 1150))
            self.dgram(False, self.packet("handshake", False, f_ack(0) + f_crypto(0, c_fin), parts=[("c", c_fin)]))
        self.dgram(True, self.packet("app", True, f_handshake_done() + f_ack(0)))

    # ---- application phase
    def _step(self, st):
        """st = {"op": "data", "d": 0|1, "pk": [{"fr": [frame descriptors], "gap": int, "pnl": 0..4}, ...]}   one datagram
                {"op": "ku", "d": 0|1}        sender d moves to its next key generation if RFC 9001 6 allows it now
                {"op": "ncid", "d": 0|1, "len": n}   d issues a new connection ID (NEW_CONNECTION_ID in its own datagram)
                {"op": "usecid", "d": 0|1, "i": k}   sender d starts using the k-th CID issued by its peer (if any)"""
        op = st["op"]
        rnd = self.rnd
        if op == "ku":
            # RFC 9001 6.1/6.2: an endpoint initiates an update only after a packet it sent with the current keys was
            # acknowledged (so both sides have sent in this generation); a peer follows an update it has seen.
            d = bool(st["d"])
            g = self.gen[d]
            sent = self.sent_gen
            if g <= self.gen[not d] and g in sent[d] and (g < self.gen[not d] or g in sent[not d]):
                self.gen[d] += 1
                self.features.add("key_update")
            return
        if op == "dup":
            # the last datagram of this direction is captured a second time (duplicated on the path / seen on two interfaces): an input
            # datagram like any other - same bytes, own capture time
            d = bool(st["d"])
            for j in range(len(self.datagrams) - 1, -1, -1):
                if self.datagrams[j][0] == d and self.paths[j] == getattr(self, "path", 0):
                    if j >= self.app_start:
                        self.datagrams.append(self.datagrams[j])
                        self.paths.append(self.paths[j])
                        self.meta.append(self.meta[j])
                        self.features.add("duplicate_datagram")
                    break
            return
        if op == "ping":
            # a datagram that carries no stream data (PING + ACK), possibly after skipped packet numbers
            d = bool(st["d"])
            pn = self.next_pn.get(("a", d), 0) + max(0, st.get("gap", 0))
            self.dgram(d, self.packet("app", d, f_ping() + f_ack(0), pn=pn, pn_len=st.get("pnl") or None))
            self.features.add("ping_only")
            return
        if op == "ncid":
            d = bool(st["d"])
            if not (self.s_scid if d else self.c_scid):
                return      # RFC 9000 5.1.1: an endpoint that chose a zero-length connection ID cannot issue new connection IDs
            cid = rbytes(rnd, st["len"])
            cur = self.dcid_for[not d]            # the CID the peer currently uses to address d
            if st.get("rel") == "ext" and cur and len(cur) < 20:
                cid = cur + rbytes(rnd, max(1, min(st["len"], 20 - len(cur))))      # the new CID extends a CID in use
                self.features.add("cid_prefix_related")
            elif st.get("rel") == "prefix" and len(cur) > 1:
                cid = cur[:max(1, min(st["len"], len(cur) - 1))]                     # the new CID is a prefix of a CID in use
                self.features.add("cid_prefix_related")
            seq = len(self.issued[d]) + 1
            self.issued[d].append(cid)
            # the two variable-length integers of the frame may be encoded in different widths (a connection that has issued 64
            # connection IDs does so with minimal encodings: sequence number 64 in two bytes, retire-prior-to still in one)
            self.dgram(d, self.packet("app", d, f_new_cid(seq, 0, cid, rbytes(rnd, 16), st.get("w"), st.get("w2", 0) if st.get("w") else None)))
            self.features.add("ncid")
            return
        if op == "rebind":
            # the client's address changes (NAT rebinding / migration, RFC 9000 9): from now on its datagrams come from - and the
            # server's go to - another source port; generated only when both endpoints use non-empty connection IDs (a passive observer can then attribute every datagram)
            if self.s_scid and self.c_scid and not self.spec.get("share_cids"):
                # (not combined with connection IDs that another connection of the capture also uses: after an address change only
                # the connection ID tells the observer which connection a datagram belongs to)
                self.path += 1
                self.features.add("client_address_change")
            return
        if op == "usecid":
            d = bool(st["d"])
            pool = self.issued[not d]
            if pool:
                self.dcid_for[d] = pool[st["i"] % len(pool)]
                self.features.add("cid_switch")
            return
        d = bool(st["d"])
        pkts, chunks = [], []
        npk = len(st["pk"])
        for pi, pk in enumerate(st["pk"]):
            last = pi == npk - 1
            if not last:
                # RFC 9000 12.2: a short-header packet ends the datagram, so only long-header (Handshake) packets can
                # precede the 1-RTT packet; they carry ACK / PING / PADDING only
                fr = b"".join(encode_frame(list(fd), rnd)[0] for fd in pk["fr"] if fd[0] in ("ack", "ping", "pad")) or f_ping()
                pkts.append(self.packet("handshake", d, fr))
                self.features.add("coalesced_app")
                continue
            body = b""
            pparts = []
            nfr = len(pk["fr"])
            for i, fd in enumerate(pk["fr"]):
                fd = list(fd)
                if fd[0] == "stream" and not fd[5] and i != nfr - 1:
                    fd[5] = True          # LEN-less frames are only legal as the last frame
                if fd[0] == "dgram" and not fd[2] and i != nfr - 1:
                    fd[2] = True
                if fd[0] == "nst":
                    # a well-formed post-handshake message (NewSessionTicket) at the right offset of the sender's 1-RTT CRYPTO stream,
                    # whole or in two frames; only servers send them
                    if not d:
                        fd = ["ping"]
                    else:
                        msg = hs(4, rbytes(rnd, fd[1]))
                        off = self.app_crypto_off = getattr(self, "app_crypto_off", 0)
                        cutp = fd[2] % len(msg) if len(fd) > 2 and fd[2] else 0
                        parts_ = [(off, msg)] if not cutp else [(off, msg[:cutp]), (off + cutp, msg[cutp:])]
                        for o_, m_ in parts_:
                            body += f_crypto(o_, m_, fd[3] if len(fd) > 3 else None)
                            pparts.append(("c", m_))
                        self.app_crypto_off = off + len(msg)
                        self.features.add("post_handshake_message")
                        continue
                b, truth = encode_frame(fd, rnd)
                body += b
                if fd[0] == "crypto":
                    pparts.append(("c", truth["data"]))
                if fd[0] == "stream":
                    pparts.append(("s", truth["data"]))
                    chunks.append(truth["data"])
                    if len([x for x in pk["fr"] if x[0] == "stream"]) > 1:
                        self.features.add("multi_stream")
            k = ("a", d)
            gap = max(0, pk.get("gap", 0))
            pn = self.next_pn.get(k, 0) + gap
            if gap:
                self.features.add("pn_gap")
            pn_len = pk.get("pnl") or None
            before = len(self.pkt_log)
            pkts.append(self.packet("app", d, body, pn=pn, pn_len=pn_len, parts=pparts))
            if self.pkt_log[before]["pn_len"] > 1:
                self.features.add("pn_len>1")
        self.dgram(d, *pkts, chunks=chunks)

    def expected_export(self):
        """[(is_server, concatenated STREAM data)] for datagrams that carried non-empty stream data, in capture order"""
        out = []
        for srv, _, chunks in self.datagrams:
            data = b"".join(chunks)
            if data:
                out.append((srv, data))
        return out
