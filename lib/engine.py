"""Worker pool, seeding, case accounting, failure bucketing, shrinking, replay files, known findings, evidence.

A check module describes its work as a list of stages:

    Stage(name, evaluate, specs=[...])                      complete enumeration of a finite list of specs
    Stage(name, evaluate, strategy=<fn tier -> strategy>, examples=N)   Hypothesis-generated specs, N in total over all workers
    Stage(name, custom=<fn(ctx) -> StageResult>)            anything else (state machines, fuzzers)

evaluate(spec) -> dict(sig=None | str, detail=str, nontrivial=bool, key=str, labels=[str])   and never raises for a property
failure (collect-then-shrink: Hypothesis and fuzzers stop at the first failure, so failures are collected into buckets keyed by
root-cause signature `sig`, each bucket is minimised afterwards and written as a replay file).
An exception escaping evaluate() is a harness error (exit 2), never a VIOLATION.
"""
import hashlib
import json
import multiprocessing as mp
import os
import re
import sys
import time
import traceback
from collections import Counter

VERIF = os.path.dirname(os.path.dirname(os.path.abspath(__file__)))
NPROC = int(os.environ.get("VERIF_NPROC", "16"))


_WORK = {}


def work_root():
    r = os.environ.get("VERIF_WORK")
    if not r:
        import tempfile
        r = tempfile.mkdtemp(prefix="tlxverif-")
        os.environ["VERIF_WORK"] = r
        _WORK["owner"] = os.getpid()
    return r


def workdir():
    """per-process scratch directory (under a per-run root that run_check.py removes on exit)"""
    pid = os.getpid()
    if _WORK.get("pid") != pid:
        d = os.path.join(work_root(), f"w{pid}")
        os.makedirs(d, exist_ok=True)
        _WORK["pid"], _WORK["dir"] = pid, d
    return _WORK["dir"]


def cleanup_work():
    import shutil
    r = os.environ.get("VERIF_WORK")
    if r and _WORK.get("owner") == os.getpid():
        shutil.rmtree(r, ignore_errors=True)


def jdump(o):
    return json.dumps(o, sort_keys=True, separators=(",", ":"), default=_jdefault)


def _jdefault(o):
    if isinstance(o, (bytes, bytearray)):
        return {"hex": bytes(o).hex()}
    if isinstance(o, (set, frozenset)):
        return sorted(o)
    raise TypeError(type(o))


def spec_hash(spec):
    return hashlib.sha256(jdump(spec).encode()).hexdigest()[:16]


def derive_seed(*parts):
    return int(hashlib.sha256(":".join(str(p) for p in parts).encode()).hexdigest()[:12], 16)


class Stage:
    def __init__(self, name, evaluate=None, specs=None, strategy=None, examples=0, custom=None, probe=None, shrink=True, chunksize=None,
                 serial=False):
        self.name, self.evaluate, self.specs, self.strategy, self.examples, self.custom = name, evaluate, specs, strategy, examples, custom
        self.probe = probe          # finding id this stage probes (failures expected and matched against known_findings.json)
        self.shrink = shrink
        self.chunksize = chunksize
        self.serial = serial


class StageResult:
    def __init__(self, name):
        self.name = name
        self.evaluations = 0
        self.nontrivial_keys = set()
        self.labels = Counter()
        self.samples = []
        self.failures = []          # (sig, detail, spec)
        self.excluded = 0
        self.budget_hit = False
        self.extra = {}

    def add(self, spec, r, max_samples=3):
        self.evaluations += r.get("evals", 1)
        if r.get("nontrivial"):
            self.nontrivial_keys.add(r.get("key") or spec_hash(spec))
            if len(self.samples) < max_samples:
                self.samples.append(spec)
        for lb in r.get("labels", ()):
            self.labels[lb] += 1
        self.excluded += r.get("excluded", 0)
        if r.get("sig"):
            self.failures.append((r["sig"], r.get("detail", ""), spec))

    def merge(self, o):
        self.evaluations += o.evaluations
        self.nontrivial_keys |= o.nontrivial_keys
        self.labels.update(o.labels)
        self.samples += o.samples[:max(0, 4 - len(self.samples))]
        self.failures += o.failures
        self.excluded += o.excluded
        self.budget_hit |= o.budget_hit
        for k, v in o.extra.items():
            if isinstance(v, (int, float)) and isinstance(self.extra.get(k, 0), (int, float)):
                self.extra[k] = self.extra.get(k, 0) + v
            else:
                self.extra.setdefault(k, v)


# ------------------------------------------------------------------ workers (fork start method: stages are inherited)
_CTX = {}


def _init_worker():
    # every worker behaves like a fresh process w.r.t. the code under test
    sys.setrecursionlimit(10000)


class _Cov:
    """measurement aid (VERIF_COV=<dir>): line/branch coverage of the code under test per worker call, combined by
    tools/coverage_report.py - tells which parts of TLExport no generated case executes; never set by the manifest"""

    def __enter__(self):
        self.cov = None
        d = os.environ.get("VERIF_COV")
        if d:
            import coverage
            import runner
            self.cov = coverage.Coverage(data_file=os.path.join(d, ".coverage"), data_suffix=True, branch=True,
                                         include=[os.path.join(runner.REPO, "tlexport", "*")])
            self.cov.start()
        return self

    def __exit__(self, *a):
        if self.cov is not None:
            self.cov.stop()
            self.cov.save()


def _enum_worker(args):
    si, lo, hi = args
    st = _CTX["stages"][si]
    res = StageResult(st.name)
    with _Cov():
        for spec in st.specs[lo:hi]:
            res.add(spec, st.evaluate(spec))
    return res


def _gen_worker(args):
    si, widx, n, seed, deadline = args
    import hypothesis
    from hypothesis import given, settings, HealthCheck, Phase
    st = _CTX["stages"][si]
    res = StageResult(st.name)
    strat = st.strategy(_CTX["tier"])

    @hypothesis.seed(seed)
    @settings(max_examples=n, phases=[Phase.generate], database=None, deadline=None, derandomize=False, report_multiple_bugs=False,
              suppress_health_check=list(HealthCheck))
    @given(strat)
    def prop(spec):
        if time.time() > deadline:
            res.budget_hit = True
            return
        res.add(spec, st.evaluate(spec))

    with _Cov():
        prop()
    res.failures = [(sig, detail, spec, widx) for sig, detail, spec in res.failures]
    return res


def _shrink_worker(args):
    """re-run the generating worker with the same seed; raise on the target bucket so that Hypothesis shrinks it; keep the
    smallest failing spec seen (the shrinker has no budget knob, so after `budget` evaluations every case passes)."""
    si, seed, n, sig, budget, deadline = args
    import hypothesis
    from hypothesis import given, settings, HealthCheck, Phase
    st = _CTX["stages"][si]
    strat = st.strategy(_CTX["tier"])
    best = {"spec": None, "size": None, "detail": "", "evals": 0}

    class Hit(Exception):
        pass

    @hypothesis.seed(seed)
    @settings(max_examples=n, phases=[Phase.generate, Phase.shrink], database=None, deadline=None, derandomize=False,
              report_multiple_bugs=False, suppress_health_check=list(HealthCheck))
    @given(strat)
    def prop(spec):
        if best["spec"] is not None:
            best["evals"] += 1
            if best["evals"] > budget or time.time() > deadline:
                return
        r = st.evaluate(spec)
        if r.get("sig") == sig:
            size = len(jdump(spec))
            if best["size"] is None or size < best["size"]:
                best.update(spec=spec, size=size, detail=r.get("detail", ""))
            raise Hit()

    try:
        prop()
    except BaseException:  # noqa: Hit, Flaky, ... - only `best` matters
        pass
    return sig, best["spec"], best["detail"], best["evals"]


# ------------------------------------------------------------------ known findings
def load_known(pid):
    path = os.path.join(VERIF, "known_findings.json")
    if not os.path.exists(path):
        return []
    with open(path) as f:
        data = json.load(f)
    return [k for k in data.get("open", []) if k["property"] == pid]


def match_known(known, triggers, sig, spec):
    for k in known:
        if not re.search(k["symptom"], sig):
            continue
        trig = triggers.get(k["trigger"])
        if trig is None:
            continue
        try:
            if trig(spec):
                return k
        except Exception:
            continue
    return None


# ------------------------------------------------------------------ the run
class Check:
    """one property: metadata + stages"""

    def __init__(self, pid, level, rule, assumptions, stages, triggers=None, replay_eval=None):
        self.pid, self.level, self.rule, self.assumptions = pid, level, rule, assumptions
        self.stages = stages            # fn(tier) -> [Stage]
        self.triggers = triggers or {}
        self.replay_eval = replay_eval  # fn(stage_name) -> evaluate


def _slug(s):
    return re.sub(r"[^A-Za-z0-9_.-]+", "_", s)[:60]


def run_check(check: Check, tier, seed, budget_s=None):
    t_start = time.time()
    pid = check.pid
    stages = check.stages(tier)
    _CTX["stages"] = stages
    _CTX["tier"] = tier
    budget_s = budget_s or (600 if tier == "quick" else 6 * 3600)
    deadline = t_start + budget_s
    known = load_known(pid)
    results = []
    violations = []     # (sig, detail, spec, stage)
    known_hits = {}     # finding id -> (count, example detail)
    pool = mp.get_context("fork").Pool(NPROC, initializer=_init_worker)
    try:
        # ---- replay tier: committed minimal reproductions are ordinary must-pass cases
        rdir = os.path.join(VERIF, "replays", pid)
        replayed = 0
        if os.path.isdir(rdir):
            by_stage = {s.name: s for s in stages}
            rr = StageResult("replay")
            for fn in sorted(os.listdir(rdir)):
                if not fn.endswith(".json"):
                    continue
                with open(os.path.join(rdir, fn)) as f:
                    rep = json.load(f)
                st = by_stage.get(rep.get("stage"))
                if st is None or st.evaluate is None:
                    continue
                r = st.evaluate(rep["spec"])
                rr.add(rep["spec"], r)
                replayed += 1
                if r.get("sig"):
                    k = match_known(known, check.triggers, r["sig"], rep["spec"])
                    if k:
                        c = known_hits.get(k["id"], (0, ""))
                        known_hits[k["id"]] = (c[0] + 1, r.get("detail", ""))
                    else:
                        violations.append((r["sig"], r.get("detail", ""), rep["spec"], rep["stage"], os.path.join(rdir, fn)))
            rr.failures = []
            results.append(rr)
        for si, st in enumerate(stages):
            t_stage = time.time()
            if time.time() > deadline:
                sr = StageResult(st.name)
                sr.budget_hit = True
                results.append(sr)
                continue
            if st.custom is not None:
                sr = st.custom({"tier": tier, "seed": seed, "deadline": deadline, "pool": pool, "stage": st})
            elif st.specs is not None:
                n = len(st.specs)
                if st.serial:
                    parts = [_enum_worker((si, 0, n))]
                else:
                    cs = st.chunksize or max(1, min(64, -(-n // (NPROC * 4))))
                    parts = pool.map(_enum_worker, [(si, lo, min(n, lo + cs)) for lo in range(0, n, cs)])
                sr = StageResult(st.name)
                for p in parts:
                    sr.merge(p)
                sr.extra["exhaustive"] = True
            else:
                nw = NPROC if st.examples >= NPROC * 4 else max(1, st.examples // 4)
                per = -(-st.examples // nw)
                jobs = [(si, w, per, derive_seed(seed, pid, st.name, w), deadline) for w in range(nw)]
                parts = pool.map(_gen_worker, jobs, chunksize=1)
                sr = StageResult(st.name)
                for p in parts:
                    sr.merge(p)
                sr.extra["workers"] = nw
                sr.extra["jobs"] = jobs
            sr.extra["wall_s"] = round(time.time() - t_stage, 1)
            results.append(sr)
            # ---- bucket failures
            buckets = {}
            for fail in sr.failures:
                sig, detail, spec = fail[:3]
                widx = fail[3] if len(fail) > 3 else None
                if st.probe:
                    k = match_known([x for x in known if x["id"] == st.probe], check.triggers, sig, spec)
                else:
                    k = match_known(known, check.triggers, sig, spec)
                if k:
                    c = known_hits.get(k["id"], (0, ""))
                    known_hits[k["id"]] = (c[0] + 1, detail)
                    continue
                buckets.setdefault(sig, []).append((len(jdump(spec)), detail, spec, widx))
            chosen = {}
            for sig, members in sorted(buckets.items()):
                members.sort(key=lambda m: m[0])
                chosen[sig] = list(members[0])
            # ---- shrink: per bucket, re-run the generating worker that saw its smallest member (same seed => same cases) and let
            # Hypothesis shrink on "same bucket"; all buckets in parallel, bounded number of evaluations and wall time
            if st.strategy is not None and st.shrink and chosen and time.time() < deadline:
                jobs = {j[1]: j for j in sr.extra.get("jobs", [])}
                sbudget = 100 if tier == "quick" else 600
                sdl = min(deadline, time.time() + (60 if tier == "quick" else 600))
                tasks = [(si, jobs[m[3]][3], jobs[m[3]][2], sig, sbudget, sdl) for sig, m in sorted(chosen.items()) if m[3] in jobs][:NPROC]
                for sig, sspec, sdetail, _ in pool.map(_shrink_worker, tasks, chunksize=1):
                    if sspec is not None and len(jdump(sspec)) < chosen[sig][0]:
                        chosen[sig][:3] = [len(jdump(sspec)), sdetail, sspec]
            for sig, (size, detail, spec, _) in sorted(chosen.items()):
                violations.append((sig, detail, spec, st.name, None))
    finally:
        pool.terminate()
        pool.join()

    # ---- report
    out_lines = []
    found_dir = os.path.join(VERIF, "replays", "found", pid)
    vio_paths = []
    for sig, detail, spec, stage, path in violations:
        if path is None:
            os.makedirs(found_dir, exist_ok=True)
            path = os.path.join(found_dir, f"{_slug(stage)}-{_slug(sig)}-{spec_hash(spec)}.json")
            with open(path, "w") as f:
                json.dump({"property": pid, "stage": stage, "sig": sig, "detail": detail, "spec": spec}, f, indent=1, default=_jdefault)
        vio_paths.append(path)
        out_lines.append(f"VIOLATION property={pid} replay={path}")
        out_lines.append(f"  stage={stage} signature={sig} detail={detail}")
    for k in known:
        if k["id"] in known_hits:
            n, d = known_hits[k["id"]]
            out_lines.append(f"KNOWN-FINDING: property={pid} {k['id']} {k['title']} (reproduced {n}x: {d})")
        else:
            out_lines.append(f"note: listed finding {k['id']} of {pid} was not reproduced by this run")
    total_eval = sum(r.evaluations for r in results)
    nontriv = set()
    for r in results:
        nontriv |= {(r.name if False else "") + str(k) for k in r.nontrivial_keys}
    samples = []
    for r in results:
        for s in r.samples[:2]:
            samples.append({"stage": r.name, "case": s})
    labels = Counter()
    for r in results:
        labels.update(r.labels)
    wall = time.time() - t_start
    ev = {
        "property_id": pid, "tier": tier, "seed": int(seed), "level": check.level,
        "coverage": {
            "evaluations": total_eval,
            "distinct_nontrivial": len(nontriv),
            "rule": check.rule,
            "samples": samples[:8] or [{"note": "no non-trivial case recorded"}],
            "exhaustive": bool(getattr(check, "exhaustive", False)),
            "stages": [{"name": r.name, "evaluations": r.evaluations, "distinct_nontrivial": len(r.nontrivial_keys),
                        "failures": len(r.failures), "budget_reached": r.budget_hit, "excluded_by_construction": r.excluded,
                        **{k: v for k, v in r.extra.items() if k not in ("jobs",) and isinstance(v, (int, float, str, bool, list, dict))}}
                       for r in results],
            "labels": dict(sorted(labels.items())),
            "excluded_by_construction": sum(r.excluded for r in results),
            "known_findings_reported": sorted(known_hits),
            "replay_files_exercised": replayed,
            "violation_replays": vio_paths,
            "trusted_base": ["cryptography primitives (block/stream/AEAD ciphers)", "CPython", "RFC transcription in lib/tlsref.py, lib/quicref.py"],
        },
        "assumptions": check.assumptions,
        "wall_s": round(wall, 2),
        "violations": len(violations),
    }
    os.makedirs(os.path.join(VERIF, "evidence"), exist_ok=True)
    with open(os.path.join(VERIF, "evidence", f"{pid}.json"), "w") as f:
        json.dump(ev, f, indent=1, default=_jdefault)
    for ln in out_lines:
        print(ln)
    print(f"{pid} {tier} seed={seed}: {total_eval} evaluations, {len(nontriv)} distinct non-trivial, {len(violations)} violation(s), "
          f"{len(known_hits)} known finding(s) reproduced, {wall:.1f}s" + ("  [budget reached]" if any(r.budget_hit for r in results) else ""))
    return 1 if violations else 0


def replay(check: Check, path):
    with open(path) as f:
        rep = json.load(f)
    _CTX["tier"] = "quick"
    st = {s.name: s for s in check.stages("quick")}.get(rep["stage"])
    if st is None or st.evaluate is None:
        print(f"stage {rep['stage']} has no evaluate()")
        return 2
    r = st.evaluate(rep["spec"])
    print(json.dumps({k: v for k, v in r.items() if k in ("sig", "detail", "nontrivial", "labels")}, default=str))
    if r.get("sig"):
        k = match_known(load_known(check.pid), check.triggers, r["sig"], rep["spec"])
        if k:
            print(f"KNOWN-FINDING: property={check.pid} {k['id']} {k['title']}")
            return 0
        print(f"VIOLATION property={check.pid} replay={path}")
        return 1
    return 0


# ------------------------------------------------------------------ stateful (rule-based machine) stages
def _machine_worker(args):
    si, widx, runs, steps, seed, deadline = args
    import hypothesis
    import hypothesis.errors
    from hypothesis import settings, HealthCheck, Phase
    from hypothesis.stateful import run_state_machine_as_test
    st = _CTX["stages"][si]
    res = StageResult(st.name)
    factory = st.machine           # fn(acc) -> RuleBasedStateMachine subclass; acc collects stats / the last trace
    acc = {"runs": 0, "steps": 0, "nontrivial": set(), "labels": Counter(), "trace": None, "samples": [], "deadline": deadline}
    M = factory(acc)
    try:
        run_state_machine_as_test(hypothesis.seed(seed)(M), settings=settings(
            max_examples=runs, stateful_step_count=steps, database=None, deadline=None, derandomize=False, report_multiple_bugs=False,
            phases=[Phase.generate, Phase.shrink], suppress_health_check=list(HealthCheck)))
    except AssertionError as e:
        msg = str(e)
        sig = msg.split("|")[0].strip()[:120] if msg else "assertion"
        res.failures.append((sig, msg[:600], {"trace": acc["trace"]}))
    except Exception as e:  # noqa
        # an exception raised inside the code under test during a rule (innermost frames in tlexport) is a failing history, anything
        # else is a harness error
        import traceback
        frames = traceback.extract_tb(e.__traceback__)
        inner = [f for f in frames if "/tlexport/" in f.filename]
        if isinstance(e, hypothesis.errors.Flaky) or not inner or not (frames and "/tlexport/" in frames[-1].filename):
            if not isinstance(e, hypothesis.errors.Flaky):
                raise
            res.failures.append(("history: the same call history behaves differently when executed again in the same process",
                                 (type(e).__name__ + ": " + str(e))[:600], {"trace": acc["trace"]}))
        else:
            res.failures.append((f"history: exception {type(e).__name__} in {os.path.basename(inner[-1].filename)}:{inner[-1].name}",
                                 str(e)[:600], {"trace": acc["trace"]}))
    res.evaluations = acc["runs"]
    res.nontrivial_keys = acc["nontrivial"]
    res.labels = acc["labels"]
    res.samples = acc["samples"][:2]
    res.extra["machine_steps"] = acc["steps"]
    return res


def machine_stage(name, machine, runs, steps, evaluate=None):
    """Stage running a hypothesis RuleBasedStateMachine `runs` times (in total) with <= `steps` steps, in the worker pool.
    `evaluate(spec)` re-executes a stored trace without Hypothesis (replay)."""
    def custom(ctx):
        st = ctx["stage"]
        si = _CTX["stages"].index(st)
        nw = NPROC if runs >= NPROC * 2 else 1
        per = -(-runs // nw)
        jobs = [(si, w, per, steps, derive_seed(ctx["seed"], name, w), ctx["deadline"]) for w in range(nw)]
        sr = StageResult(name)
        for p in ctx["pool"].map(_machine_worker, jobs, chunksize=1):
            sr.merge(p)
        return sr
    st = Stage(name, evaluate=evaluate, custom=custom)
    st.machine = machine
    return st
