#!/bin/sh
# offline, idempotent: hypothesis into /venv (if absent), atheris into /verif/.deps (for the fuzz targets)
set -e
cd "$(dirname "$0")"
/venv/bin/python -c "import hypothesis" 2>/dev/null || /venv/bin/pip install --no-index --find-links /opt/veriftools/wheels hypothesis
if [ ! -d .deps/atheris ]; then
  /venv/bin/pip install --no-index --find-links /opt/veriftools/wheels --target .deps atheris >/dev/null 2>&1 || echo "atheris not installable; fuzz stages will be skipped"
fi
/venv/bin/python -c "import sys; sys.path.insert(0,'/repo'); import tlexport.main" 
echo setup ok
