#!/venv/bin/python
"""run_check.py <Cxx> [--tier quick|thorough] [--replay FILE] [--budget SECONDS]
exit 0: property held on everything explored (KNOWN-FINDING lines allowed) / 1: VIOLATION / 2: harness error"""
import argparse
import importlib
import os
import sys
import traceback

HERE = os.path.dirname(os.path.abspath(__file__))


def main():
    ap = argparse.ArgumentParser()
    ap.add_argument("prop")
    ap.add_argument("--tier", default=os.environ.get("VERIF_TIER", "quick"), choices=["quick", "thorough"])
    ap.add_argument("--replay")
    ap.add_argument("--budget", type=float)
    a = ap.parse_args()
    if os.environ.get("PYTHONHASHSEED") is None:
        # TLExport iterates over sets of bytes; pin the hash seed so that a run is a function of code + VERIF_SEED only
        os.environ["PYTHONHASHSEED"] = "0"
        os.execv(sys.executable, [sys.executable] + sys.argv)
    sys.path.insert(0, os.environ.get("TLEXPORT_ROOT", "/repo"))      # code under test: /repo's working tree (override only for sensitivity experiments)
    sys.path.insert(0, os.path.join(HERE, "lib"))
    sys.path.insert(0, HERE)
    deps = os.path.join(HERE, ".deps")
    if os.path.isdir(deps):
        sys.path.append(deps)
    import engine
    try:
        seed = int(os.environ.get("VERIF_SEED", "1"))
    except ValueError:
        seed = 1
    pid = a.prop.upper()
    try:
        engine.work_root()
        mod = importlib.import_module(f"checks.{pid.lower()}")
        check = mod.CHECK
        if a.replay:
            return engine.replay(check, a.replay)
        return engine.run_check(check, a.tier, seed, a.budget)
    except SystemExit:
        raise
    except BaseException:
        traceback.print_exc()
        print(f"HARNESS-ERROR property={pid}")
        return 2
    finally:
        engine.cleanup_work()


if __name__ == "__main__":
    sys.exit(main())
