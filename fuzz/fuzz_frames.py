#!/venv/bin/python
"""atheris target for C17: parse_frames on fuzzer-chosen bytes with the semantic oracle inside the target."""
import os
import sys

HERE = os.path.dirname(os.path.abspath(__file__))
VERIF = os.path.dirname(HERE)
for p in (os.path.join(VERIF, "lib"), VERIF, os.path.join(VERIF, ".deps")):
    if p not in sys.path:
        sys.path.insert(0, p)
import atheris  # noqa: E402

with atheris.instrument_imports(include=["tlexport"]):
    import runner  # noqa: E402,F401
    import tlexport.quic.quic_frame  # noqa: E402,F401
from checks import c17  # noqa: E402


def one(data):
    sig, detail = c17.check_arbitrary(bytes(data))
    if sig:
        raise RuntimeError(sig + " | " + detail)


if __name__ == "__main__":
    atheris.Setup(sys.argv, one)
    atheris.Fuzz()
