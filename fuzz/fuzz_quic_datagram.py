#!/venv/bin/python
"""atheris target for C03: fuzzer-chosen UDP payloads through tlexport.main.handle_quic_packet (module state reset per
iteration) next to a healthy QUIC session; oracle: nothing escapes, the healthy session's buffered frames are untouched."""
import os
import sys

HERE = os.path.dirname(os.path.abspath(__file__))
VERIF = os.path.dirname(HERE)
for p in (os.path.join(VERIF, "lib"), VERIF, os.path.join(VERIF, ".deps")):
    if p not in sys.path:
        sys.path.insert(0, p)
import atheris  # noqa: E402

with atheris.instrument_imports(include=["tlexport"]):
    import runner  # noqa: E402,F401
    import tlexport.main  # noqa: E402,F401
from checks import c03  # noqa: E402


def one(data):
    data = bytes(data)
    sig, detail = c03.feed_datagrams(c03.split_payloads(data), greasy=bool(data and data[-1] & 1))     # as c03.evaluate_datagrams({"hex": ...})
    if sig:
        raise RuntimeError(sig + " | " + detail)


if __name__ == "__main__":
    if os.environ.get("FUZZ_SEED_CORPUS") == "1":
        # seed the (fresh) corpus directory with real packets of the fixture connection and header-shaped datagrams
        cdir = sys.argv[-1]
        fx = c03.fuzz_fixture()
        for i, (srv, data, _) in enumerate(fx["conn"].datagrams[:6]):
            d = data[:1500]
            n = min(255, (len(d) - 1) // 6)
            with open(os.path.join(cdir, "real%d" % i), "wb") as f:
                f.write(bytes([n]) + d[:n * 6 + 1])
    atheris.Setup(sys.argv, one)
    atheris.Fuzz()
