"""C09 - the export depends only on which secrets are supplied, not on how."""
import hashlib
import os

from hypothesis import strategies as st

import engine
import oracle
import runner  # noqa: F401
import scenario
import strategies
from engine import Stage, Check

PID = "C09"


def _digest(o):
    if o.size is None:
        return None
    with open(o.outpath, "rb") as f:
        return hashlib.sha256(f.read()).hexdigest()


def evaluate(spec):
    """spec: scenario + "variant": key-delivery spec (scenario.DEFAULT_KEYS keys) + "sub": None | {"cwd": "tmp"|"root"|"work"}"""
    b = scenario.build(spec)
    wd = engine.workdir()
    o0 = oracle.run_e2e(b, wd, keys={"file": True}, name="canon", keep=False)
    f0 = oracle.base_failure(o0)
    if f0:
        return {"sig": "canonical delivery: " + f0, "detail": (o0.run.exc or "")[-300:], "nontrivial": False}
    d0 = _digest(o0)
    v = dict(spec["variant"])
    sub = spec.get("sub")
    # the pcapng that embeds the blocks may be written in either byte order (the block's secrets-type and length fields with it)
    cont = {"endian": ">"} if v.pop("be", False) else None
    if sub:
        cwd = {"tmp": wd, "root": "/", "work": os.path.dirname(wd)}[sub["cwd"]]
        o1 = oracle.run_e2e(b, wd, keys=v, name="variant", inproc=False, cwd=cwd, hashseed="0", container=cont)
    else:
        o1 = oracle.run_e2e(b, wd, keys=v, name="variant", container=cont)
    f1 = oracle.base_failure(o1)
    dims = (2 if v.get("explicit") or v.get("straddle") else 0) + sum(1 for k in ("shuffle", "crlf") if v.get(k)) + sum(1 for k in ("comments", "blanks", "unrelated", "dup") if v.get(k, 0) > 0) + \
        (1 if v.get("upper", "none") != "none" else 0)
    uses_dsb = bool(v.get("dsb"))
    labels = ["dsbpos:" + (v["dsb_pos"] if isinstance(v.get("dsb_pos"), str) else "+".join(v.get("dsb_pos") or ["first"])) if v.get("dsb") else "dsbpos:-", "delivery:" + ("dsb-only" if uses_dsb and not v.get("file", True) else "file+dsb" if uses_dsb else "file"),
              "dsbs:%d" % len(v.get("dsb") or []), "upper:" + v.get("upper", "none"), "sub" if sub else "inproc",
              "kinds:" + "+".join(sorted({c["kind"] for c in spec["conns"]}))]
    if v.get("straddle"):
        labels.append("block:%d" % v["straddle"][0])
    for k in ("shuffle", "crlf", "comments", "blanks", "unrelated", "dup", "explicit", "no_final_nl", "straddle"):
        if v.get(k):
            labels.append("decor:" + k)
    labels.append("pcapng:" + ("be" if cont else "le"))
    nontrivial = bool(o0.pkts) and (dims >= 2 or uses_dsb)
    if f1:
        return {"sig": f"variant ({labels[1]}): " + f1, "detail": (o1.run.exc or o1.run.stderr or "")[-300:], "nontrivial": nontrivial, "labels": labels,
                "evals": 2}
    sig, detail = None, ""
    if _digest(o1) != d0:
        n0, n1 = len(o0.pkts or []), len(o1.pkts or [])
        why = []
        if v.get("upper", "none") != "none":
            why.append("upper-case hex")
        if uses_dsb and not v.get("file", True):
            why.append("dsb-only")
        elif uses_dsb:
            why.append("file+dsb")
        sig = "export differs from canonical delivery: " + ("fewer packets" if n1 < n0 else "more packets" if n1 > n0 else "different bytes") + \
            (" [" + ",".join(why) + "]" if why else " [decorations only]")
        detail = f"{n1} packets instead of {n0}; variant {v}"
    return {"sig": sig, "detail": detail, "nontrivial": nontrivial, "labels": labels, "evals": 2}


@st.composite
def variant(draw, nlines, tls_only, allow_sub=True):
    v = {"seed": draw(st.integers(0, 1 << 30)), "shuffle": draw(st.booleans()), "crlf": draw(st.booleans()),
         "comments": draw(st.sampled_from([0, 0, 1, 3])), "comment_keys": draw(st.booleans()), "blanks": draw(st.sampled_from([0, 0, 1, 2])),
         "unrelated": draw(st.sampled_from([0, 0, 2])), "dup": draw(st.sampled_from([0, 0, 1, 2, 6, 15])),
         "upper": draw(st.sampled_from(["none", "none", "cr", "sec", "both", "mixed"])),
         "no_final_nl": draw(st.sampled_from([False, False, True]))}       # the last line need not end with a line terminator
    mode = draw(st.sampled_from(["file", "dsb_only", "dsb_only", "file+dsb", "split", "partition"]))
    idx = list(range(nlines))
    if mode == "file":
        v["file"], v["dsb"] = True, []
    elif mode == "dsb_only":
        v["file"], v["dsb"] = False, [None]
    elif mode == "file+dsb":
        v["file"], v["dsb"] = True, [None]
    elif mode == "split":
        m = draw(st.integers(2, 4))
        parts = [[] for _ in range(m)]
        for i in idx:
            parts[draw(st.integers(0, m - 1))].append(i)
        v["file"], v["dsb"] = False, parts           # some blocks may stay empty: a DSB without any secret
    else:   # partition between file and one DSB
        mask = draw(st.lists(st.booleans(), min_size=nlines, max_size=nlines))
        v["file"], v["file_lines"] = True, [i for i in idx if mask[i]]
        v["dsb"] = [[i for i in idx if not mask[i]]]
    v["be"] = draw(st.sampled_from([False, False, True]))
    v["dsb_pos"] = draw(st.sampled_from(["first", "spread", "before_idb"])) if tls_only else draw(st.sampled_from(["first", "first", "before_idb"]))
    return v


@st.composite
def spec_strategy(draw, sub=False):
    n = draw(st.integers(1, 2))
    conns = []
    for i in range(n):
        k = draw(st.sampled_from(["tls", "tls", "quic"]))
        ep = strategies.endpoints(idx=i)
        if k == "tls":
            c = draw(strategies.tls_conn(max_records=4, max_len=200, ep=ep, delivery=strategies.tcp_delivery(modes=("rec", "flight"), wrap=False)))
        else:
            c = draw(strategies.quic_conn(max_steps=4, ep=ep))
        c["seed"] = c["seed"] * 8 + i
        conns.append(c)
    sc = {"conns": conns, "order": draw(st.lists(st.integers(0, 3), min_size=1, max_size=6)), "tseed": draw(st.integers(1, 500))}
    b = scenario.build_conns(sc)
    tls_only = all(c["kind"] == "tls" for c in conns)
    sc["variant"] = draw(variant(len(b.keylog), tls_only))
    if not tls_only and not sub and any(c["kind"] == "tls" for c in conns) and draw(st.booleans()):
        # mixed capture: the secrets of the QUIC connections in a block in front, those of the TLS connections in a block anywhere
        qcr = {cn.cr.hex() for cn, cs in zip(b.conns, conns) if cs["kind"] == "quic"}
        qi = [i for i, ln in enumerate(b.keylog) if ln.split(" ")[1] in qcr]
        ti = [i for i in range(len(b.keylog)) if i not in qi]
        sc["variant"].update(file=draw(st.booleans()), dsb=[qi, ti], dsb_pos=[draw(st.sampled_from(["first", "before_idb"])), "spread"])
        if sc["variant"]["file"]:
            sc["variant"]["file_lines"] = qi          # ... or the QUIC secrets in the -s file and the TLS secrets in a block anywhere
            sc["variant"]["dsb"] = [ti]
            sc["variant"]["dsb_pos"] = ["spread"]
    if sub:
        sc["sub"] = {"cwd": draw(st.sampled_from(["tmp", "root", "work"]))}
        sc["variant"]["file"] = False        # the README's second form: no -s at all, secrets only inside the capture
        sc["variant"].pop("file_lines", None)
        if not sc["variant"]["dsb"] or any(p is not None for p in sc["variant"]["dsb"]) and sum(len(p or []) for p in sc["variant"]["dsb"]) < len(b.keylog):
            sc["variant"]["dsb"] = [None]
    return sc


def line_order_bases():
    bases = []
    ep = {"v6": False, "cmac": "020000000001", "smac": "020000000002", "sport": 443, "cport": 40001, "cip": "10.1.2.3", "sip": "192.168.7.9"}
    for ver, suite, extra in ((0x0304, 0x1301, {}), (0x0304, 0x1303, {"tickets": 1}), (0x0304, 0x1302, {"early_labels": True, "hs_secrets": False}),
                              (0x0303, 0xC02F, {}), (0x0301, 0x002F, {})):
        c = {"kind": "tls", "version": ver, "suite": suite, "seed": 77 + suite, "ep": ep, "history": [[0, 120, 0], [1, 300, 0], [0, 40, 0], [1, 33, 0]], "hs_secrets": True}
        c.update(extra)
        bases.append({"conns": [c], "order": [0], "tseed": 5})
    # a session and its resumption: two CLIENT_RANDOM lines with different client randoms and the same master secret
    from checks import c01
    res = c01.resumed_specs()[0]
    bases.append({"conns": res["conns"], "order": [0, 1], "tseed": 5})
    q = {"kind": "quic", "suite": 0x1301, "seed": 4242, "ep": dict(ep, cport=40002),
         "steps": [{"op": "data", "d": 0, "pk": [{"fr": [["stream", 0, 50, None, False, True, None]], "gap": 0, "pnl": 0}]},
                   {"op": "data", "d": 1, "pk": [{"fr": [["stream", 0, 90, None, False, True, None]], "gap": 0, "pnl": 0}]}]}
    bases.append({"conns": [q], "order": [0], "tseed": 5})
    return bases


def line_order_specs(tier):
    """every order of the lines of one connection's key log x one line repeated at every position (quick: a seeded sample)"""
    import itertools
    import random
    rnd = random.Random(engine.derive_seed(os.environ.get("VERIF_SEED", "1"), PID, "line-orders"))
    bases = line_order_bases()
    out = []
    for base in bases:
        n = len(scenario.build_conns(base).keylog)
        allv = []
        for perm in itertools.permutations(range(n)):
            for line in range(n):
                for pos in range(n + 1):
                    e = list(perm)
                    e.insert(pos, line)
                    allv.append(e)
        if tier == "quick":
            allv = rnd.sample(allv, min(len(allv), 120))
        for e in allv:
            sc = dict(base)
            sc["variant"] = dict(scenario.DEFAULT_KEYS, explicit=e, file=True, dsb=[])
            out.append(sc)
    return out


def block_boundary_specs(tier):
    """long key logs: a line of the connection lies across a multiple of a typical read-block size, cut at every kind of position
    (inside the label, the client random, the secret; at the separators; at the line end)"""
    import random
    rnd = random.Random(engine.derive_seed(os.environ.get("VERIF_SEED", "1"), PID, "block-boundaries"))
    out = []
    bases = [sc for sc in line_order_bases()]
    for bi, base in enumerate(bases):
        n = len(scenario.build_conns(base).keylog)
        for block in (4096, 8192, 65536, 131072):
            for which in range(n):
                js = sorted({0, 1, 5, 13, 14, 15, 16, 40, 78, 79, 80, 81, 82, 100, 140, 170, 175, 176, 177, 178} | {rnd.randrange(0, 180) for _ in range(4)})
                if tier == "quick":
                    js = rnd.sample(js, 3)
                for j in js:
                    for dsb in ((False,) if tier == "quick" or block > 8192 else (False, True)):
                        sc = dict(base)
                        sc["variant"] = dict(scenario.DEFAULT_KEYS, straddle=[block, 1 + (j + which) % 2, which, j], seed=j * 31 + which,
                                             file=not dsb, dsb=[None] if dsb else [], crlf=bool((j + bi) % 3 == 0))
                        out.append(sc)
    return out


def stages(tier):
    quick = tier == "quick"
    return [
        Stage("line-orders", evaluate, specs=line_order_specs(tier)),
        Stage("block-boundaries", evaluate, specs=block_boundary_specs(tier)),
        Stage("variants", evaluate, strategy=lambda t: spec_strategy(False), examples=500 if quick else 15000),
        Stage("dsb-only-subprocess", evaluate, strategy=lambda t: spec_strategy(True), examples=32 if quick else 600, shrink=False),
    ]


RULE = ("stage block-boundaries: key logs of 4 KiB .. 256 KiB in which a line of the connection lies across a multiple of 4096 / 8192 / 65536 / 131072 "
        "bytes at every kind of position; stage line-orders: for a TLS 1.3 (with and without tickets), TLS 1.2, TLS 1.0 and QUIC connection, every order of its key-log lines with one line "
        "repeated at every position (quick: 120 sampled per connection); other stages: a TLS and/or QUIC scenario is run with its canonical key log file and with a generated delivery variant: line permutation, LF/CRLF, "
        "comment (also commented-out entries for the connection's client random with a stale secret) / blank / unrelated / duplicate lines, last line with or without a line end, upper/lower/mixed-case hex in client random and secret, file only / DSB only (no -s) / "
        "(the pcapng holding the blocks little- or big-endian) "
        "file + DSB / log split over 2-4 DSBs (blocks may be empty) / lines partitioned between file and DSB, DSBs before the interface description block, first after it, or (TLS-only captures) "
        "anywhere; stage dsb-only-subprocess runs `python -m tlexport.main` without -s from three different working directories; oracle: output "
        "file bytes identical to the canonical run.  Non-trivial: canonical run exports packets and the variant differs in >= 2 decoration "
        "dimensions or uses a DSB")
ASSUMPTIONS = ["for QUIC the DSBs precede the packets (QUIC is processed online), as the property states",
               "the union of the supplied lines is always the complete canonical set (C03 covers missing lines)"]

CHECK = Check(PID, "exploration", RULE, ASSUMPTIONS, stages)
