"""C15 - derived traffic keys, as installed for a connection, equal the RFC key schedules."""
import hashlib

from hypothesis import strategies as st

import engine
import oracle
import quicref
import runner
import scenario
import strategies
import tlsref
from engine import Stage, Check

PID = "C15"


def _b(x):
    return None if x is None else bytes(x)


def evaluate_tls(spec):
    b = scenario.build(spec)
    o = oracle.run_e2e(b, engine.workdir())
    conn = b.conns[0]
    f = oracle.base_failure(o)
    if f:
        return {"sig": f, "detail": (o.run.exc or "")[-300:], "nontrivial": True}
    m = runner.tlx_main()
    if len(m.sessions) != 1 or m.sessions[0].decryptor is None:
        return {"sig": "no decryptor installed for a connection whose secrets are in the key log", "detail": f"{len(m.sessions)} sessions", "nontrivial": True}
    d = m.sessions[0].decryptor
    ref = conn.reference_keys()
    bad = []
    if conn.v == tlsref.TLS13:
        hs_secrets = spec["conns"][0].get("hs_secrets", True)
        pairs = [("client_application_key", d.client_application_key), ("client_application_iv", d.client_application_iv),
                 ("server_application_key", d.server_application_key), ("server_application_iv", d.server_application_iv)]
        if hs_secrets:
            pairs += [("client_handshake_key", d.client_handshake_key), ("client_handshake_iv", d.client_handshake_iv),
                      ("server_handshake_key", d.server_handshake_key), ("server_handshake_iv", d.server_handshake_iv)]
        for nm, got in pairs:
            if _b(got) != ref[nm]:
                bad.append(nm)
        # "as installed": after a complete handshake the keys in use are the application keys
        if not bad:
            for side in ("client", "server"):
                if _b(getattr(d, side + "_key")) != ref[side + "_application_key"] or _b(getattr(d, side + "_iv")) != ref[side + "_application_iv"]:
                    bad.append(side + " keys in use after the handshake are not the application keys")
    else:
        got = {"client_key": d.client_key, "server_key": d.server_key, "client_mac": d.client_mac, "server_mac": d.server_mac,
               "client_iv": d.client_iv, "server_iv": d.server_iv}
        for nm, want in ref.items():      # only material the RFC defines for this suite/version is in ref
            if _b(got[nm]) != want:
                bad.append(nm)
    s = conn.s
    labels = [tlsref.VERSION_NAMES[conn.v], "kind:" + s.kind, "alg:" + s.alg, "prf:" + s.prf]
    sig = None
    if bad:
        sig = f"tls key material differs from the RFC key schedule: {bad[0]} ({tlsref.VERSION_NAMES[conn.v]}, {s.kind})"
    return {"sig": sig, "detail": f"{s!r} {tlsref.VERSION_NAMES[conn.v]}: {bad}", "nontrivial": True, "labels": labels,
            "key": "%04x/%04x/%d/%d" % (conn.v, s.code, conn.etm, spec["conns"][0]["seed"])}


def tls_sweep(variant):
    out = []
    for i, (code, ver, etm) in enumerate(tlsref.all_combos()):
        out.append({"conns": [{"kind": "tls", "seed": 9000 + 7919 * variant + i, "version": ver, "suite": code, "etm": etm, "history": [[0, 5, 0], [1, 9, 0]],
                               "cert_len": 20, "hs_secrets": bool((i + variant) % 2), "ep": scenario.default_ep(i % 200)}], "tseed": 0})
    return out


def _want_table(conn):
    K = conn.keys
    want = {}
    for side, srv in (("client", False), ("server", True)):
        want[f"{side}_initial_key"], want[f"{side}_initial_iv"], want[f"{side}_initial_hp"] = K["initial"][srv].key, K["initial"][srv].iv, K["initial"][srv].hp
        want[f"{side}_handshake_key"], want[f"{side}_handshake_iv"], want[f"{side}_handshake_hp"] = K["handshake"][srv].key, K["handshake"][srv].iv, K["handshake"][srv].hp
        want[f"{side}_application_key"], want[f"{side}_application_iv"], want[f"{side}_application_hp"] = K["app"][srv][0].key, K["app"][srv][0].iv, K["app"][srv][0].hp
    if "early" in K:
        want["client_early_key"], want["client_early_iv"], want["client_early_hp"] = K["early"][False].key, K["early"][False].iv, K["early"][False].hp
    return want


def evaluate_quic_concurrent(spec):
    """two QUIC connections whose datagrams alternate in the capture: each session's installed key table is its own connection's RFC 9001
    schedule, and every packet of either connection is opened with the key its sender used"""
    import tlexport.quic.quic_decryptor as qd
    from ipaddress import ip_address
    used = []
    orig = qd.QuicDecryptor.decrypt

    def rec(self, ciphertext, packet_number, associated_data, isserver):
        key, iv = (self.server_key, self.server_iv) if isserver else (self.client_key, self.client_iv)
        out = orig(self, ciphertext, packet_number, associated_data, isserver)
        used.append((bool(isserver), bytes(key), bytes(iv), int.from_bytes(packet_number, "big")))
        return out
    qd.QuicDecryptor.decrypt = rec
    try:
        b = scenario.build(spec)
        o = oracle.run_e2e(b, engine.workdir())
    finally:
        qd.QuicDecryptor.decrypt = orig
    f = oracle.base_failure(o)
    if f:
        return {"sig": f, "detail": (o.run.exc or "")[-300:], "nontrivial": True}
    m = runner.tlx_main()
    bad = []
    for ci, conn in enumerate(b.conns):
        ep = spec["conns"][ci]["ep"]
        mine = [q for q in m.quic_sessions if bytes(q.client_ip) == ip_address(ep["cip"]).packed and q.client_port == ep["cport"]]
        if len(mine) != 1:
            bad.append(f"connection {ci}: {len(mine)} sessions")
            continue
        for nm, w in _want_table(conn).items():
            if _b(mine[0].keys.get(nm)) != w:
                bad.append(f"connection {ci}: {nm}")
    sent = sorted((e["srv"], e["key"], e["iv"], e["pn"]) for conn in b.conns for e in conn.pkt_log)
    if not bad and sorted(used) != sent:
        bad.append(f"packets opened with their sender's keys: {len(set(used) & set(sent))} of {len(sent)}")
    sig = "concurrent quic connections: installed key material differs from RFC 9001: " + bad[0].split(": ")[-1].split("_")[-1] if bad else None
    return {"sig": sig, "detail": str(bad[:6]), "nontrivial": True, "labels": ["quic-concurrent"], "key": "qc%s" % spec["conns"][0]["seed"]}


def quic_concurrent_specs():
    out = []
    data = lambda d, n: {"op": "data", "d": d, "pk": [{"fr": [["stream", 0, n, None, False, True, None]], "gap": 0, "pnl": 0}]}
    i = 0
    for sa in (0x1301, 0x1302, 0x1303, 0x1304):
        for sb in (0x1301, 0x1303, 0x1302):
            for ku in (False, True):
                steps = [data(0, 10), data(1, 11)] + ([{"op": "ku", "d": 0}, data(0, 12), data(1, 13)] if ku else []) + [data(0, 14), data(1, 15)]
                conns = [{"kind": "quic", "seed": 5100 + 2 * i + j, "suite": su, "steps": steps, "early": (i + j) % 2, "retry": bool((i + j) % 3 == 0),
                          "ep": scenario.default_ep(80 + 2 * (i % 40) + j)} for j, su in enumerate((sa, sb))]
                out.append({"conns": conns, "order": [0, 1], "tseed": 1 + i})
                i += 1
    return out


def evaluate_quic(spec):
    import tlexport.quic.quic_decryptor as qd
    used = []
    orig = qd.QuicDecryptor.decrypt

    def rec(self, ciphertext, packet_number, associated_data, isserver):
        key, iv = (self.server_key, self.server_iv) if isserver else (self.client_key, self.client_iv)
        out = orig(self, ciphertext, packet_number, associated_data, isserver)      # raises on failure: only successful uses are recorded
        used.append((bool(isserver), bytes(key), bytes(iv), int.from_bytes(packet_number, "big")))
        return out
    qd.QuicDecryptor.decrypt = rec
    try:
        b = scenario.build(spec)
        o = oracle.run_e2e(b, engine.workdir())
    finally:
        qd.QuicDecryptor.decrypt = orig
    conn = b.conns[0]
    f = oracle.base_failure(o)
    if f:
        return {"sig": f, "detail": (o.run.exc or "")[-300:], "nontrivial": True}
    m = runner.tlx_main()
    if len(m.quic_sessions) != 1:
        return {"sig": "quic: not exactly one session for one connection", "detail": str(len(m.quic_sessions)), "nontrivial": True}
    qs = m.quic_sessions[0]
    bad = []
    K = conn.keys
    want = {}
    for side, srv in (("client", False), ("server", True)):
        want[f"{side}_initial_key"], want[f"{side}_initial_iv"], want[f"{side}_initial_hp"] = K["initial"][srv].key, K["initial"][srv].iv, K["initial"][srv].hp
        want[f"{side}_handshake_key"], want[f"{side}_handshake_iv"], want[f"{side}_handshake_hp"] = K["handshake"][srv].key, K["handshake"][srv].iv, K["handshake"][srv].hp
        want[f"{side}_application_key"], want[f"{side}_application_iv"], want[f"{side}_application_hp"] = K["app"][srv][0].key, K["app"][srv][0].iv, K["app"][srv][0].hp
    if "early" in K:
        want["client_early_key"], want["client_early_iv"], want["client_early_hp"] = K["early"][False].key, K["early"][False].iv, K["early"][False].hp
    for nm, w in want.items():
        if _b(qs.keys.get(nm)) != w:
            bad.append(nm)
    # key-update generations that were reached
    gens = max(max(conn.sent_gen[False] | {0}), max(conn.sent_gen[True] | {0}))      # generations in which a packet was actually sent
    apps = qs.decryptors.get("Application", [])
    if not bad:
        for g in range(0, gens + 1):
            if g >= len(apps):
                bad.append(f"generation {g} never installed")
                break
            for srv, kk, iv in ((True, apps[g].server_key, apps[g].server_iv), (False, apps[g].client_key, apps[g].client_iv)):
                ref = K["app"][srv]
                while len(ref) <= g:
                    ref.append(ref[-1].next_gen())
                if _b(kk) != ref[g].key or _b(iv) != ref[g].iv:
                    bad.append(f"key-update generation {g} {'server' if srv else 'client'} key/iv")
    # keys as installed when used: the i-th successfully decrypted packet used the key the sender protected it with
    if not bad:
        sent = [(e["srv"], e["key"], e["iv"], e["pn"]) for e in conn.pkt_log]
        if used != sent:
            n = next((i for i, (x, y) in enumerate(zip(used, sent)) if x != y), min(len(used), len(sent)))
            what = "fewer packets decrypted than sent" if len(used) < len(sent) and used == sent[:len(used)] else \
                ("key/iv" if n < len(used) and n < len(sent) and used[n][3] == sent[n][3] else "packet number / order")
            bad.append(f"keys as used per packet differ at packet {n}: {what} ({conn.pkt_log[n]['kind'] if n < len(sent) else '-'})")
    cs = spec["conns"][0]
    labels = ["quic", "suite:%04x" % cs["suite"], "generations:%d" % min(gens, 4), "cids:%d/%d/%d" % (cs.get("dcid_len", 8), cs.get("c_scid_len", 8), cs.get("s_scid_len", 8))]
    labels += ["f:" + x for x in sorted(conn.features & {"retry", "0rtt", "key_update"})]
    sig = None
    if bad:
        first = bad[0]
        cls = "initial" if "initial" in first else "handshake" if "handshake" in first else "early" if "early" in first else "hp" if first.endswith("_hp") else \
            "key update" if "generation" in first else "application" if "application" in first else "as-used"
        sig = f"quic key material differs from RFC 9001: {cls}"
    return {"sig": sig, "detail": str(bad[:3]), "nontrivial": True, "labels": labels,
            "key": "q/%04x/%d/%d" % (cs["suite"], cs["seed"], gens)}


def quic_grid():
    out = []
    data = lambda d, n: {"op": "data", "d": d, "pk": [{"fr": [["stream", 0, n, None, False, True, None]], "gap": 0, "pnl": 0}]}
    i = 0
    for suite in (0x1301, 0x1302, 0x1303, 0x1304):
        for gens in range(0, 5):
            steps = [data(0, 10), data(1, 11)]
            for g in range(gens):
                a = g % 2
                steps += [{"op": "ku", "d": a}, data(a, 12 + g), {"op": "ku", "d": 1 - a}, data(1 - a, 13 + g)]
            for dl, cl, sl in ((8, 8, 8), (20, 0, 5), (12, 20, 0), (8, 1, 20), (0, 8, 8), (3, 0, 4)):
                for early, retry in ((0, False), (1, False), (0, True)):
                    out.append({"conns": [{"kind": "quic", "seed": 700 + i, "suite": suite, "dcid_len": dl, "c_scid_len": cl, "s_scid_len": sl, "steps": steps,
                                           "early": early, "retry": retry, "ep": scenario.default_ep(i % 100)}], "tseed": 1 + i})
                    i += 1
    return out


# ------------------------------------------------------------------ function level: PRFs and key-block cutting with generated lengths
def evaluate_fn(spec):
    import tlexport.key_derivator as kd
    from cryptography.hazmat.primitives import hashes
    import random
    rnd = random.Random(spec["seed"])
    secret, cr, sr = rnd.randbytes(spec["slen"]), rnd.randbytes(32), rnd.randbytes(32)
    n = spec["n"]
    which = spec["fn"]
    if which.startswith("tls12"):
        n = n + 64 * (spec["seed"] % 2)      # TLS 1.2 key blocks go up to 2*48 + 2*32 + 2*16 = 192 bytes
    try:
        if which == "ssl3_key_block":
            got, want = kd.prf_ssl_30(secret, cr, sr, n, 0), tlsref.ssl3_prf(secret, sr, cr, n)
        elif which == "ssl3_master":
            got, want = kd.prf_ssl_30(secret, cr, sr, 48, 1), tlsref.ssl3_prf(secret, cr, sr, 48)
        elif which == "tls10_key_block":
            got, want = kd.prf_tls_10_11(secret, cr, sr, b"key expansion", n, 0), tlsref.tls10_prf(secret, b"key expansion", sr + cr, n)
        elif which == "tls10_master":
            got, want = kd.prf_tls_10_11(secret, cr, sr, b"master secret", 48, 1), tlsref.tls10_prf(secret, b"master secret", cr + sr, 48)
        elif which == "tls12_sha256":
            got, want = kd.prf_tls_12(secret, cr, sr, b"key expansion", n, hashes.SHA256), tlsref.tls12_prf("sha256", secret, b"key expansion", sr + cr, n)
        elif which == "tls12_sha384":
            got, want = kd.prf_tls_12(secret, cr, sr, b"key expansion", n, hashes.SHA384), tlsref.tls12_prf("sha384", secret, b"key expansion", sr + cr, n)
        elif which == "tls12_master":
            got, want = kd.gen_master_secret_tls_12(secret, cr, sr), tlsref.tls12_prf("sha256", secret, b"master secret", cr + sr, 48)
        else:   # quic initial keys for arbitrary DCID lengths
            from tlexport.quic.quic_key_generation import dev_initial_keys
            from tlexport.quic.quic_decode import QuicVersion
            dcid = rnd.randbytes(spec["slen"] % 21)
            k = dev_initial_keys(dcid, QuicVersion.V1, False)
            r = quicref.initial_keys(dcid)
            got = b"".join(k[x] for x in ("client_initial_key", "client_initial_iv", "client_initial_hp", "server_initial_key", "server_initial_iv", "server_initial_hp"))
            want = r[False].key + r[False].iv + r[False].hp + r[True].key + r[True].iv + r[True].hp
    except Exception as e:  # noqa
        return {"sig": f"{which}: raises {type(e).__name__}", "detail": f"{spec}: {e}", "nontrivial": True}
    sig = None if bytes(got) == bytes(want) else f"{which}: output differs from the RFC function"
    return {"sig": sig, "detail": str(spec), "nontrivial": True, "labels": ["fn:" + which], "key": f"{which}/{spec['seed']}/{n}/{spec['slen']}"}


FN = st.builds(lambda fn, seed, slen, n: {"fn": fn, "seed": seed, "slen": slen, "n": n},
               st.sampled_from(["ssl3_key_block", "ssl3_master", "tls10_key_block", "tls10_master", "tls12_sha256", "tls12_sha384", "tls12_master", "quic_initial"]),
               st.integers(0, 1 << 30), st.one_of(st.just(48), st.integers(1, 40).map(lambda k: 2 * k)),
               st.one_of(st.integers(1, 136), st.sampled_from([16, 32, 48, 72, 104, 136])))


def stages(tier):
    quick = tier == "quick"
    st_ = [Stage("tls-sweep", evaluate_tls, specs=tls_sweep(0)), Stage("quic-grid", evaluate_quic, specs=quic_grid()),
           Stage("quic-concurrent-connections", evaluate_quic_concurrent, specs=quic_concurrent_specs())]
    if not quick:
        for v in range(1, 20):
            st_.append(Stage(f"tls-sweep-v{v}", evaluate_tls, specs=tls_sweep(v)))
    # keys of a resumed session: same master secret, own randoms - judged through the plaintext both connections export (C01's stage)
    from checks import c01
    st_.append(Stage("resumed-session-pairs", c01.evaluate_resumed, specs=c01.resumed_specs()))
    st_.append(Stage("quic-histories", evaluate_quic, strategy=lambda t: strategies.single_quic_scenario(max_steps=14, dups=False), examples=600 if quick else 12000))
    st_.append(Stage("functions", evaluate_fn, strategy=lambda t: FN, examples=4000 if quick else 200000))
    return st_


RULE = ("a synthetic handshake with random master / traffic secrets and randoms is fed to the real main.run() for EVERY (suite, version, EtM) "
        "combination of the table; afterwards the key material installed in the session's decryptor (keys, MAC secrets, and the IVs the RFC "
        "defines for that version/suite; TLS 1.3 handshake and application keys and the keys in use after the handshake) is compared with the "
        "reference key schedules of lib/tlsref.py; QUIC: grid over 4 suites x 0-4 key-update generations x CID lengths 0..20 x Retry / 0-RTT plus "
        "Hypothesis histories - initial, handshake, early, application and header-protection keys, every generation reached, and (by wrapping "
        "QuicDecryptor.decrypt) the key and packet number actually used for every packet; plus function-level differential tests of the PRFs "
        "with generated secret and output lengths.  Every compared connection is non-trivial (keys are random); distinct by (version, suite, "
        "seed)")
ASSUMPTIONS = ["hashlib/hmac are correct; the reference key schedules in lib/tlsref.py / lib/quicref.py transcribe RFC 6101/2246/5246/8446/9001",
               "only material the RFC defines is compared (e.g. no CBC IV for TLS >= 1.1, no IV for RC4)",
               "open finding F10 is excluded by construction (the per-packet key check needs every packet to be decryptable)",
               "function-level tests use the input domain the callers can produce: secrets of even length (master / pre-master secrets are 48 bytes, "
               "TLS 1.3 secrets 32/48), SSL 3.0 key blocks up to the 136 bytes the largest SSL 3.0 suite needs"]

CHECK = Check(PID, "exploration", RULE, ASSUMPTIONS, stages)
