"""C16 - QUIC packet numbers are reconstructed as RFC 9000 Appendix A.3 defines, per packet-number space and direction."""
from hypothesis import strategies as st
from hypothesis.stateful import RuleBasedStateMachine, rule, invariant

import engine
import runner  # noqa: F401
from quicref import rfc_decode_pn
from engine import Stage, Check, machine_stage

PID = "C16"
SPACES = ["INITIAL", "HANDSHAKE", "RTT_1", "RTT_O"]
MODEL_SPACE = {"INITIAL": "i", "HANDSHAKE": "h", "RTT_1": "a", "RTT_O": "a"}     # 0-RTT and 1-RTT share a space (RFC 9000 12.3)


class _Stub:
    __slots__ = ("isserver", "packet_type", "packet_num")


def _session():
    from tlexport.quic.quic_session import QuicSession
    qs = object.__new__(QuicSession)
    qs.set_packet_number_spaces()
    return qs


def _call(qs, space, srv, nbytes, truncated):
    from tlexport.quic.quic_packet import QuicPacketType
    p = _Stub()
    p.isserver, p.packet_type = bool(srv), getattr(QuicPacketType, space)
    p.packet_num = truncated.to_bytes(nbytes, "big")
    out = qs.get_full_packet_number(p)
    return int.from_bytes(out, "big") if isinstance(out, (bytes, bytearray)) else int(out)


def _set_largest(qs, space, srv, largest):
    from tlexport.quic.quic_session import PACKET_TYPE_MAP
    from tlexport.quic.quic_packet import QuicPacketType
    d = qs.packet_number_server if srv else qs.packet_number_client
    d[PACKET_TYPE_MAP[getattr(QuicPacketType, space)]] = largest


def _get_largest(qs, space, srv):
    from tlexport.quic.quic_session import PACKET_TYPE_MAP
    from tlexport.quic.quic_packet import QuicPacketType
    d = qs.packet_number_server if srv else qs.packet_number_client
    return d[PACKET_TYPE_MAP[getattr(QuicPacketType, space)]]


def evaluate(spec):
    """spec = [largest, nbytes, truncated, srv, space index]"""
    largest, nbytes, truncated, srv, sp = spec
    space = SPACES[sp % 4]
    qs = _session()
    _set_largest(qs, space, srv, largest)
    try:
        got = _call(qs, space, srv, nbytes, truncated)
    except Exception as e:  # noqa
        return {"sig": "exception:" + type(e).__name__, "detail": f"{spec}: {e}", "nontrivial": True}
    want = rfc_decode_pn(largest, truncated, 8 * nbytes)
    win = 1 << (8 * nbytes)
    exp = largest + 1
    cand = (exp & ~(win - 1)) | truncated
    adjusted = want != cand
    near = min(abs(cand - (exp - win // 2)), abs(cand - (exp + win // 2)), abs((1 << 62) - win - cand), abs(cand - win)) <= 3
    sig = None
    detail = ""
    if got != want:
        sig = "wrong-packet-number:" + ("ge2^53" if largest >= 2 ** 53 else "lt2^53")
        detail = f"largest={largest} len={nbytes} truncated={truncated}: got {got}, RFC 9000 A.3 gives {want}"
    else:
        new = _get_largest(qs, space, srv)
        if new != max(largest, want):
            sig = "largest-not-tracked"
            detail = f"largest={largest} decoded={want}: stored largest {new}"
    labels = ["len%d" % nbytes, "adjusted+" if want > cand else "adjusted-" if want < cand else "unadjusted", "mag:2^%d" % (largest.bit_length())]
    if near:
        labels.append("near-boundary")
    return {"sig": sig, "detail": detail, "nontrivial": adjusted or near, "key": f"{largest}/{nbytes}/{truncated}", "labels": labels}


def boundary_specs(full):
    out = []
    seen = set()
    for n in (1, 2, 3, 4):
        win = 1 << (8 * n)
        hwin = win // 2
        bases = set()
        for e in range(0, 62):
            for d in (-2, -1, 0, 1, 2):
                bases.add((1 << e) + d)
            # largest+1 == 0 mod win, and around half windows, at this magnitude
            b = ((1 << e) // win) * win
            for d in (-3, -2, -1, 0, 1, 2):
                bases.add(b + d)
                bases.add(b + hwin + d)
        bases |= {(1 << 62) - 1 - d for d in range(0, 4)} | {(1 << 62) - win + d for d in range(-3, 4)} | {(1 << 62) - 2 * win + d for d in (-1, 0, 1)}
        for L in sorted(x for x in bases if 0 <= x < (1 << 62)):
            exp = L + 1
            ts = set()
            for c in (exp - hwin, exp + hwin, exp, exp - win, exp + win, 0, win - 1, hwin):
                for d in range(-3, 4) if full else (-1, 0, 1):
                    ts.add((c + d) % win)
            for t in sorted(ts):
                k = (L, n, t)
                if k not in seen:
                    seen.add(k)
                    out.append([L, n, t, (L + t) & 1, (L + n) % 4])
    return out


@st.composite
def random_case(draw):
    n = draw(st.integers(1, 4))
    e = draw(st.integers(0, 62))
    largest = draw(st.integers(0, (1 << e) - 1 if e else 0)) if e < 62 else draw(st.integers(1 << 61, (1 << 62) - 1))
    truncated = draw(st.integers(0, (1 << (8 * n)) - 1))
    return [largest, n, truncated, draw(st.integers(0, 1)), draw(st.integers(0, 3))]


# ---- histories: packets of all spaces and both directions arriving with gaps and reordering
def _fresh_module():
    """every history starts from freshly imported session code, so that what one history leaves behind at module level cannot reach the next
    one (within a history several connections live side by side - there such state is visible to the oracle and to the replay)"""
    import importlib
    import sys
    m = sys.modules.get("tlexport.quic.quic_session")
    if m is not None:
        importlib.reload(m)


def replay_trace(spec):
    _fresh_module()
    sessions = [_session()]
    model = {}
    for step in spec["trace"]:
        if step == ["new"]:
            sessions.append(_session())
            for space in SPACES:
                for srv in (False, True):
                    if _get_largest(sessions[-1], space, srv) != 0:
                        return {"sig": "history: a new connection does not start with empty packet-number spaces",
                                "detail": f"connection {len(sessions) - 1}: {space} srv={srv}", "nontrivial": True}
            continue
        conn, space, srv, nbytes, truncated = step
        qs = sessions[conn]
        k = (conn, MODEL_SPACE[space], srv)
        largest = model.get(k, -1)
        want = rfc_decode_pn(largest, truncated, 8 * nbytes)
        try:
            got = _call(qs, space, srv, nbytes, truncated)
        except Exception as e:  # noqa
            return {"sig": f"history: packet-number reconstruction raises {type(e).__name__}", "detail": f"step {step}: {e} (model largest {largest})", "nontrivial": True}
        if got != want:
            return {"sig": "history: wrong packet number", "detail": f"step {step}: got {got} want {want} (model largest {largest})", "nontrivial": True}
        model[k] = max(largest, want)
        for (cn, ms, sv), v in model.items():
            for sp in SPACES:
                if MODEL_SPACE[sp] == ms:
                    stored = _get_largest(sessions[cn], sp, sv)
                    if stored != max(v, 0):
                        return {"sig": "history: largest not tracked per connection, space and direction",
                                "detail": f"after step {step}: connection {cn} {sp} srv={sv}: stored {stored} model {v}", "nontrivial": True}
    return {"sig": None, "nontrivial": len(spec["trace"]) >= 3}


def make_machine(acc):
    class PnHistory(RuleBasedStateMachine):
        def __init__(self):
            super().__init__()
            _fresh_module()
            self.sessions = [_session()]
            self.model = {}
            self.sent = {}
            self.trace = []
            self.kinds = set()
            acc["runs"] += 1

        @rule()
        def new_connection(self):
            """another connection of the same run: its packet-number spaces are its own"""
            if len(self.sessions) >= 4:
                return
            self.trace.append(["new"])
            acc["trace"] = list(self.trace)
            self.sessions.append(_session())
            self.kinds.add("connections>=2")
            for space in SPACES:
                for srv in (False, True):
                    assert _get_largest(self.sessions[-1], space, srv) == 0, \
                        f"history: a new connection does not start with empty packet-number spaces | connection {len(self.sessions) - 1}: {space} srv={srv}"

        def _deliver(self, conn, space, srv, pn, nbytes):
            truncated = pn & ((1 << (8 * nbytes)) - 1)
            step = [conn, space, srv, nbytes, truncated]
            self.trace.append(step)
            acc["trace"] = list(self.trace)
            acc["steps"] += 1
            k = (conn, MODEL_SPACE[space], srv)
            largest = self.model.get(k, -1)
            want = rfc_decode_pn(largest, truncated, 8 * nbytes)
            try:
                got = _call(self.sessions[conn], space, srv, nbytes, truncated)
            except Exception as e:  # noqa
                raise AssertionError(f"history: packet-number reconstruction raises {type(e).__name__} | step {step}: {e} (largest {largest}, RFC gives {want})")
            assert got == want, f"history: wrong packet number | step {step}: got {got}, RFC gives {want} (largest {largest})"
            self.model[k] = max(largest, want)
            if want != ((largest + 1) & ~((1 << 8 * nbytes) - 1)) | truncated:
                self.kinds.add("adjusted")

        @rule(conn=st.integers(0, 3), space=st.sampled_from(SPACES), srv=st.booleans(),
              gap=st.one_of(st.integers(0, 3), st.integers(0, 300), st.integers(0, 1 << 40)), nbytes=st.integers(1, 4))
        def send_next(self, conn, space, srv, gap, nbytes):
            conn %= len(self.sessions)
            k = (conn, MODEL_SPACE[space], srv)
            pn = min(self.sent.get(k, -1) + 1 + gap, (1 << 62) - 1)
            self.sent[k] = pn
            self.kinds.add("gap" if gap else "next")
            self._deliver(conn, space, srv, pn, nbytes)

        @rule(conn=st.integers(0, 3), space=st.sampled_from(SPACES), srv=st.booleans(), back=st.integers(1, 200), nbytes=st.integers(1, 4))
        def late_arrival(self, conn, space, srv, back, nbytes):
            """a packet that was overtaken: number below the largest seen"""
            conn %= len(self.sessions)
            k = (conn, MODEL_SPACE[space], srv)
            if self.sent.get(k, -1) < 1:
                return
            pn = max(0, self.sent[k] - back)
            self.kinds.add("reordered")
            self._deliver(conn, space, srv, pn, nbytes)

        @rule(conn=st.integers(0, 3), space=st.sampled_from(SPACES), srv=st.booleans(), base=st.integers(50, 61), off=st.integers(0, 1 << 20),
              nbytes=st.integers(1, 4))
        def jump_high(self, conn, space, srv, base, off, nbytes):
            """long-lived connection: numbers beyond 2^53"""
            conn %= len(self.sessions)
            k = (conn, MODEL_SPACE[space], srv)
            pn = min((1 << base) + off, (1 << 62) - 1)
            if pn <= self.sent.get(k, -1):
                return
            # reach it in steps a 4-byte encoding can express is not required: A.3 is defined for any (largest, truncated)
            self.sent[k] = pn
            self.kinds.add("high")
            self._deliver(conn, space, srv, pn, nbytes)

        @invariant()
        def largest_tracked(self):
            for (conn, ms, srv), v in self.model.items():
                for space in SPACES:
                    if MODEL_SPACE[space] == ms:
                        stored = _get_largest(self.sessions[conn], space, srv)
                        assert stored == max(v, 0), (f"history: largest not tracked per connection, space and direction | connection {conn} "
                                                     f"space {space} srv {srv}: stored {stored}, model {v}")

        def teardown(self):
            if len(self.trace) >= 3 and len({tuple(x[:3]) for x in self.trace if len(x) == 5}) >= 2 and ("reordered" in self.kinds or "gap" in self.kinds):
                acc["nontrivial"].add(engine.spec_hash(self.trace))
                if len(acc["samples"]) < 2:
                    acc["samples"].append({"trace": list(self.trace)})
            for kd in self.kinds:
                acc["labels"]["hist:" + kd] += 1

    return PnHistory


def evaluate_stack(spec):
    """real protected packets through tlexport.main (Retry, skipped packet numbers in every space, coalescing, reordering-free): the packet
    number handed to the AEAD for every packet must be the one the sender used (observed by wrapping QuicDecryptor.decrypt, as in C15)"""
    from checks import c15
    r = c15.evaluate_quic(spec)
    if r.get("sig"):
        r = dict(r, sig="through the stack: " + r["sig"])
    r["labels"] = ["stack"] + [x for x in r.get("labels", []) if x.startswith("f:")]
    return r


def evaluate_nonce(spec):
    """spec = [largest, nbytes, truncated, srv, suite index]: the number reconstructed from (largest, truncated) is handed to the session's
    AEAD exactly as decrypt_packet does (bytes returned by get_full_packet_number -> QuicDecryptor.decrypt); the ciphertext was sealed by
    the reference with nonce = IV xor the A.3 number (RFC 9001 5.3), so only the right 62-bit number in the nonce opens it"""
    from cryptography.hazmat.primitives.ciphers.aead import AESGCM, AESCCM, ChaCha20Poly1305
    from tlexport.quic.quic_decryptor import QuicDecryptor
    from tlexport.quic.quic_packet import QuicPacketType
    largest, nbytes, truncated, srv, si = spec
    cls, klen = [(AESGCM, 16), (AESGCM, 32), (ChaCha20Poly1305, 32), (AESCCM, 16)][si % 4]
    want = rfc_decode_pn(largest, truncated, 8 * nbytes)
    key_s, key_c = bytes(range(klen)), bytes(range(1, klen + 1))
    iv_s, iv_c = bytes(range(100, 112)), bytes(range(50, 62))
    key, iv = (key_s, iv_s) if srv else (key_c, iv_c)
    nonce = (int.from_bytes(iv, "big") ^ want).to_bytes(12, "big")
    aad = b"\x40" + truncated.to_bytes(nbytes, "big")
    pt = b"stream data %d" % want
    ct = cls(key).encrypt(nonce, pt, aad)
    qs = _session()
    _set_largest(qs, "RTT_1", srv, largest)
    p = _Stub()
    p.isserver, p.packet_type = bool(srv), QuicPacketType.RTT_1
    p.packet_num = truncated.to_bytes(nbytes, "big")
    try:
        pn_bytes = qs.get_full_packet_number(p)
        got = QuicDecryptor([key_s, iv_s, key_c, iv_c], cls, early=False).decrypt(ct, pn_bytes, aad, bool(srv))
    except Exception as e:  # noqa
        return {"sig": "nonce: packet sealed with the A.3 packet number is not opened (%s)" % type(e).__name__,
                "detail": f"largest={largest} len={nbytes} truncated={truncated} -> {want}: {e}", "nontrivial": True}
    sig = None if got == pt else "nonce: wrong plaintext"
    return {"sig": sig, "detail": f"{spec}", "nontrivial": True, "key": f"n{largest}/{nbytes}/{truncated}/{si % 4}/{srv}",
            "labels": ["nonce", "mag:2^%d" % largest.bit_length(), "len%d" % nbytes]}


def nonce_specs():
    out = []
    i = 0
    for e in (0, 7, 8, 15, 16, 24, 31, 32, 33, 40, 48, 53, 56, 61):
        for d in (-2, 0, 1):
            L = max(0, (1 << e) + d)
            if L >= (1 << 62):
                continue
            for n in (1, 2, 3, 4):
                for t in ((L + 1) & ((1 << 8 * n) - 1), (L + 3) & ((1 << 8 * n) - 1), 0, (1 << 8 * n) - 1):
                    out.append([L, n, t, i & 1, i // 2])
                    i += 1
    out += [[(1 << 62) - 2, 4, ((1 << 62) - 1) & 0xFFFFFFFF, 0, 0], [(1 << 62) - 2, 1, 0xFF, 1, 2]]
    return out


def evaluate_late(spec):
    """a long one-directional run of 1-RTT packets with 1-byte packet numbers, some of them captured so late that they lie outside the
    window of their own encoding: A.3 then defines a (wrong) number for them, they cannot be opened, and - the reconstruction being a
    function of the largest number of SUCCESSFULLY processed packets - every other packet is reconstructed as if they had not arrived.
    Oracle: an A.3 model run over the capture order says which datagrams open; exactly their stream data is exported, in capture order"""
    import oracle
    import scenario
    import quicref
    b = scenario.build(spec)
    conn = b.conns[0]
    n0 = conn.app_start
    app = list(range(n0, len(conn.datagrams)))
    order = list(range(len(b.pkts)))
    for src, dst in spec["late"]:           # app datagram index src is captured directly behind app datagram index dst (> src)
        a, z = app[src % len(app)], app[dst % len(app)]
        if a < z:
            order.remove(a)
            order.insert(order.index(z) + 1, a)
    times = sorted(p.ts for p in b.pkts)
    log = [e for e in conn.pkt_log]
    # app-phase datagrams carry exactly one packet each here: the k-th app datagram is the k-th "app" entry of the packet log
    app_log = [e for e in log if e["kind"] == "app"][-len(app):]      # (1-RTT packets of the handshake phase come first in the log)
    pkts = []
    largest = {False: None, True: None}
    want = []
    for t, j in zip(times, order):
        pk = b.pkts[j]
        pk.ts = t
        pkts.append(pk)
        if j >= n0:
            e = app_log[j - n0]
            srv = e["srv"]
            lg = largest[srv]
            got = quicref.rfc_decode_pn(lg if lg is not None else 0, e["pn"] & ((1 << (8 * e["pn_len"])) - 1), 8 * e["pn_len"]) if lg is not None else e["pn"]
            if got == e["pn"]:
                largest[srv] = max(lg if lg is not None else -1, e["pn"])
                data = b"".join(conn.datagrams[j][2])
                if data:
                    want.append((srv, data))
    o = oracle.run_e2e(b, engine.workdir(), pkts=pkts)
    sig = oracle.base_failure(o)
    detail = (o.run.exc or "")[-300:] if sig else ""
    dropped = len([1 for j in app if b"".join(conn.datagrams[j][2])]) - len(want)
    if sig is None:
        got = [(srv, pl) for srv, pl, _ in oracle.quic_flow_list(o, spec["conns"][0]["ep"])]
        if got != want:
            sig = "late arrival outside the window: exported datagrams differ from those the A.3 model opens"
            firstbad = next((i for i, (g, w) in enumerate(zip(got, want)) if g != w), min(len(got), len(want)))
            detail = f"{got[firstbad:firstbad + 1]!r:.80} vs {want[firstbad:firstbad + 1]!r:.80}; {len(got)} exported, {len(want)} expected ({dropped} legitimately unopenable); first difference at exported datagram {firstbad}"
    return {"sig": sig, "detail": detail, "nontrivial": dropped >= 1 and len(want) >= 100, "labels": ["late-outside-window", "dropped:%d" % min(dropped, 4)],
            "key": "late%s" % spec["late"]}


def late_specs():
    import scenario
    out = []
    i = 0
    for suite in (0x1301, 0x1303):
        for d, lates in ((1, [[100, 230], [228, 300]]), (0, [[5, 140]]), (1, [[10, 137], [11, 139], [200, 205]]), (0, [[1, 129], [150, 290]])):
            steps = []
            for k in range(330):
                steps.append({"op": "data", "d": d, "pk": [{"fr": [["stream", 0, 3 + k % 5, None, False, True, None]], "gap": 0, "pnl": 1}]})
                if k % 40 == 0:
                    steps.append({"op": "data", "d": 1 - d, "pk": [{"fr": [["stream", 4, 9, None, False, True, None]], "gap": 0, "pnl": 0}]})
                if k == 300 and i % 2 == 0:
                    # a key update far into the connection: the packet numbers go on (RFC 9001 6: only the keys change), now above 256
                    steps.append({"op": "ku", "d": d})
            out.append({"conns": [{"kind": "quic", "seed": 1900 + i, "suite": suite, "steps": steps, "ep": scenario.default_ep(i)}], "tseed": 1 + i,
                        "late": [[a + a // 40 + 1, z + z // 40 + 1] for a, z in lates]})
            i += 1
    return out


def stack_specs():
    import scenario
    out = []
    data = lambda d, n, gap=0: {"op": "data", "d": d, "pk": [{"fr": [["stream", 0, n, None, False, True, None]], "gap": gap, "pnl": 0}]}
    i = 0
    for suite in (0x1301, 0x1303):
        for retry in (False, True):
            for gaps in ([0], [300, 0, 0, 0], [0, 0, 70000, 5], [1 << 20, 3, 0, 300, 0, 0], [255, 0, 0, 0, 0], [65535, 0, 256, 0]):
                for hs_pnl in (0, 2, 4):
                    out.append({"conns": [{"kind": "quic", "seed": 1600 + i, "suite": suite, "retry": retry, "hs_gaps": gaps, "hs_pnl": hs_pnl,
                                           "hs_coalesce": bool(i % 2), "steps": [data(0, 10, 200), data(1, 11, 70000), data(0, 12), data(1, 13)],
                                           "ep": scenario.default_ep(i % 50)}], "tseed": 1 + i})
                    i += 1
    return out


def stages(tier):
    quick = tier == "quick"
    return [
        Stage("through-the-stack", evaluate_stack, specs=stack_specs()),
        Stage("late-arrivals-outside-the-window", evaluate_late, specs=late_specs(), chunksize=1),
        Stage("number-in-the-nonce", evaluate_nonce, specs=nonce_specs(), chunksize=64),
        Stage("boundaries", evaluate, specs=boundary_specs(full=not quick), chunksize=4096),
        Stage("random", evaluate, strategy=lambda t: random_case(), examples=60000 if quick else 2000000, shrink=True),
        machine_stage("histories", make_machine, runs=1600 if quick else 100000, steps=40, evaluate=replay_trace),
    ]


RULE = ("stage late-arrivals-outside-the-window: 330 one-byte-numbered 1-RTT packets of one direction through tlexport.main, two or three of them captured "
        "more than half a window late (they cannot be opened; A.3 defines their wrong number), in half of the cases with a key update at packet 300 - exactly the datagrams an A.3 model over the capture order "
        "opens are exported, i.e. a packet that could not be opened leaves the largest-number state alone; stage through-the-stack: real protected packets (2 suites x Retry x skipped packet numbers in every space x encoded lengths) through "
        "tlexport.main, the packet number given to the AEAD compared with the sender's for every packet; stage number-in-the-nonce: "
        "for largest around 2^0..2^61 and all lengths a packet sealed by the reference with nonce = IV xor the A.3 number must be opened by the "
        "session's reconstruction + QuicDecryptor (4 AEADs); then direct calls of the packet-number "
        "reconstruction on a stub session: (largest, length, truncated) enumerated around every window / "
        "half-window / 2^62 boundary at magnitudes 2^0..2^62 for all four lengths, random elsewhere; plus rule-based histories (gaps, late "
        "arrivals, >2^53 jumps, further connections) over 4 packet types x 2 directions with an RFC A.3 model per (connection, space, direction).  Non-trivial: the candidate "
        "is adjusted by +-window or lies within 3 of a decision boundary (direct); history with >=3 packets in >=2 (space,direction) pairs "
        "and a gap or reordering; a history holds up to 4 connections side by side, each with its own model")
ASSUMPTIONS = ["oracle is the RFC 9000 A.3 pseudo-code transcribed in lib/quicref.rfc_decode_pn (integer arithmetic)",
               "'no packet seen yet' is represented by TLExport as largest = 0; for that state RFC (expected 0) and TLExport (expected 1) agree on every input, which the boundary stage covers"]

CHECK = Check(PID, "exploration", RULE, ASSUMPTIONS, stages)
