"""C11 - with -c exactly the packets with a bad transport checksum are ignored."""
import struct

from hypothesis import strategies as st

import engine
import netio
import oracle
import runner  # noqa: F401
import scenario
import strategies
from engine import Stage, Check

PID = "C11"


# ------------------------------------------------------------------ component: the one's-complement sum
def fold(s):
    while s >> 16:
        s = (s & 0xFFFF) + (s >> 16)
    return s


def evaluate_sum(spec):
    """spec = {"words": [ints], "odd": int | None}"""
    from tlexport.checksums import ones_complement_checksum
    data = b"".join(struct.pack("!H", w) for w in spec["words"])
    if spec.get("odd") is not None:
        data += bytes([spec["odd"]])
    want = (~fold(sum(spec["words"]) + ((spec["odd"] << 8) if spec.get("odd") is not None else 0))) & 0xFFFF
    s = sum(spec["words"]) + ((spec["odd"] << 8) if spec.get("odd") is not None else 0)
    labels = ["sum:" + ("<=0xffff" if s <= 0xFFFF else "==0x10000" if s == 0x10000 else "fold->0x10000" if (s & 0xFFFF) + (s >> 16) == 0x10000 else
                        "fold->0xffff" if fold(s) == 0xFFFF else "other")]
    try:
        got = int.from_bytes(bytes(ones_complement_checksum(bytearray(data))), "big")
    except Exception as e:  # noqa
        return {"sig": "checksum function raises " + type(e).__name__, "detail": f"{data.hex()[:80]} sum {s:#x}", "nontrivial": True, "labels": labels}
    sig = None
    if got != want:
        sig = "checksum function wrong"
    return {"sig": sig, "detail": f"sum {s:#x}: got {got:#06x} want {want:#06x}", "nontrivial": s > 0xFFFF, "labels": labels}


WORD = st.one_of(st.sampled_from([0, 1, 2, 0xFFFF, 0xFFFE, 0x8000, 0x7FFF, 0x0100, 0x00FF]), st.integers(0, 0xFFFF))
SUM_SPEC = st.builds(lambda w, o: {"words": w, "odd": o}, st.lists(WORD, max_size=40), st.one_of(st.none(), st.integers(0, 255)))


def boundary_sum_specs():
    out = []
    for k in range(1, 40):
        for d in (-2, -1, 0, 1, 2):
            s = (k << 16) + (0x10000 - k) + d          # first fold lands on / next to 0x10000
            words = [0xFFFF] * (s // 0xFFFF) + ([s % 0xFFFF] if s % 0xFFFF else [])
            out.append({"words": words, "odd": None})
            t = k * 0xFFFF + d                           # folds to 0xffff / next to it
            if t >= 0:
                out.append({"words": [0xFFFF] * (t // 0xFFFF) + ([t % 0xFFFF] if t % 0xFFFF else []), "odd": None})
    for s in (0, 1, 0xFFFE, 0xFFFF, 0x10000, 0x10001, 0x1FFFE, 0x1FFFF, 0x20000, 0x2FFFE):
        words = []
        r = s
        while r > 0:
            w = min(r, 0xFFFF)
            words.append(w)
            r -= w
        out.append({"words": words, "odd": None})
        if words and words[-1] < 0xFF00:
            out.append({"words": words[:-1], "odd": None} if False else {"words": words[:-1] + [words[-1] & 0x00FF], "odd": words[-1] >> 8})
    return out


# ------------------------------------------------------------------ packets with steered sums
TARGETS = ["fold1=0x10000", "csum=0x0000", "csum=0xfffe", "csum=0x0001", "none"]


def steer_delta(base, target):
    """how much two free 16-bit words must add to `base` (unfolded) to reach the target class; None if unreachable"""
    cands = []
    if target == "fold1=0x10000":
        for k in range(1, 64):
            cands.append((k << 16) + (0x10000 - k))
    elif target == "csum=0x0000":       # folded sum 0xffff
        cands = [k * 0xFFFF for k in range(1, 80)]
    elif target == "csum=0xfffe":       # folded sum 1
        cands = [k * 0xFFFF + 1 for k in range(0, 80)]
    elif target == "csum=0x0001":       # folded sum 0xfffe
        cands = [k * 0xFFFF + 0xFFFE for k in range(0, 80)]
    for c in cands:
        if 0 <= c - base <= 0x1FFFE:
            return c - base
    return None


def steered_tcp(ep, srv, seq, ack, payload, target):
    """-> (steer tuple | None)"""
    cm, sm = bytes.fromhex(ep["cmac"]), bytes.fromhex(ep["smac"])
    a = (ep["sip"], ep["cip"], ep["sport"], ep["cport"]) if srv else (ep["cip"], ep["sip"], ep["cport"], ep["sport"])
    tcp0 = struct.pack("!HHIIBBHHH", a[2], a[3], seq & 0xFFFFFFFF, ack & 0xFFFFFFFF, 5 << 4, 0x18, 0, 0, 0) + payload
    base = netio.unfolded_sum(a[0], a[1], 6, tcp0)
    d = steer_delta(base, target)
    if d is None:
        return None
    return (min(d, 0xFFFF), d - min(d, 0xFFFF))


def apply_csum_plan(b, plan):
    """plan = {"bad": [[k, delta], ...], "steer": [[k, target index], ...]} over the packets that carry payload.
    -> (pkts, set of indices judged bad by the receiver rule, number of steered packets)"""
    pkts = [p.copy() for p in b.pkts]
    withpl = [i for i, p in enumerate(pkts) if p.payload and p.proto in ("tcp", "udp")]
    bad, steered = set(), 0
    if not withpl:
        return pkts, bad, steered
    for k, ti in plan.get("steer", []):
        i = withpl[k % len(withpl)]
        p = pkts[i]
        target = TARGETS[ti % len(TARGETS)]
        if target == "none":
            continue
        if p.proto == "tcp":
            stv = steered_tcp(p.ep, p.srv, p.seq, p.ack, p.payload, target)
            if stv is not None:
                p.steer = stv
                steered += 1
        elif p.tag == "noise" and len(p.payload) >= 2:
            # plain UDP: the last (word-aligned) two payload bytes are free
            ep = p.ep
            a = (ep["sip"], ep["cip"], ep["sport"], ep["cport"]) if p.srv else (ep["cip"], ep["sip"], ep["cport"], ep["sport"])
            pl = p.payload if len(p.payload) % 2 == 0 else p.payload + b"\x00"
            udp0 = struct.pack("!HHHH", a[2], a[3], 8 + len(pl), 0) + pl[:-2] + b"\x00\x00"
            base = netio.unfolded_sum(a[0], a[1], 17, udp0)
            d = steer_delta(base, target)
            if d is not None and d <= 0xFFFF:
                p.payload = pl[:-2] + struct.pack("!H", d)
                steered += 1
    for k, delta in plan.get("bad", []):
        i = withpl[k % len(withpl)]
        pkts[i].bad_csum = 1 + delta % 0xFFFE
        bad.add(i)
    return pkts, bad, steered


def evaluate_e2e(spec):
    b = scenario.build(spec)
    pkts, bad, steered = apply_csum_plan(b, spec.get("csum", {}))
    wd = engine.workdir()
    other = {k: v for k, v in (spec.get("opts") or {}).items() if k != "c"}       # the option is independent of the others (-g, -a, -m)
    sub = {"inproc": False, "hashseed": "0"} if other.get("d") else {}       # log output needs a process of its own (the harness silences logging)
    o1 = oracle.run_e2e(b, wd, pkts=pkts, opts=dict(other, c=True), name="withc", **sub)
    sig = oracle.base_failure(o1)
    if sig:
        return {"sig": "-c run: " + sig, "detail": (o1.run.exc or "")[-300:], "nontrivial": True, "labels": ["e2e"]}
    good = [p for i, p in enumerate(pkts) if i not in bad]
    o2 = oracle.run_e2e(b, wd, pkts=good, opts=other or None, name="filtered")
    sig = oracle.base_failure(o2)
    if sig:
        return {"sig": "harness: filtered run " + sig, "detail": (o2.run.exc or "")[-300:], "nontrivial": False}
    k1 = [(p.ts, p.sip, p.dip, p.sport, p.dport, p.seq, p.ack, p.flags, p.payload) for p in o1.pkts]
    k2 = [(p.ts, p.sip, p.dip, p.sport, p.dport, p.seq, p.ack, p.flags, p.payload) for p in o2.pkts]
    detail = ""
    if k1 != k2:
        if len(k1) < len(k2):
            sig = "packets with a correct checksum are ignored under -c"
        elif len(k1) > len(k2):
            sig = "packets with a bad checksum are processed under -c"
        else:
            sig = "export under -c differs from export of the filtered capture"
        detail = f"{len(k1)} packets with -c, {len(k2)} from the filtered capture; {len(bad)} corrupted, {steered} steered"
    kinds = sorted({c["kind"] for c in spec["conns"]})
    labels = ["e2e:" + "+".join(kinds), "bad:%d" % min(len(bad), 3), "steered:%d" % min(steered, 3)]
    labels.append("with:" + ("".join(sorted(k for k, v in other.items() if v is not None and v is not False)) or "-"))
    labels += ["v6" if any((c.get("ep") or {}).get("v6") for c in spec["conns"]) else "v4only"]
    return {"sig": sig, "detail": detail, "nontrivial": bool(bad) and steered >= 1 and len(k2) > 0, "labels": labels, "evals": 2}


@st.composite
def e2e_spec(draw):
    conns = []
    n = draw(st.integers(1, 3))
    for i in range(n):
        k = draw(st.sampled_from(["tls", "tls", "quic", "quic", "noise"]))
        # QUIC is recognised on any port: listed and unlisted server ports
        ep = strategies.endpoints(idx=i, sports=(443, 44330, 4433, 8443, 50000) if k == "quic" else (443,))
        if k == "tls":
            c = draw(strategies.tls_conn(max_records=5, max_len=300, ep=ep, delivery=strategies.tcp_delivery(modes=("rec", "cuts"), wrap=False)))
        elif k == "quic":
            c = draw(strategies.quic_conn(max_steps=5, ep=ep))
        else:
            c = {"kind": "noise", "what": draw(st.sampled_from(["udp_rand", "dns", "udp_quicish"])), "seed": draw(st.integers(0, 1 << 30)),
                 "n": draw(st.integers(1, 5)), "ep": draw(strategies.endpoints(idx=i, sports=(443, 53, 4433)))}
        c["seed"] = c.get("seed", 0) * 8 + i
        conns.append(c)
    plan = {"bad": draw(st.lists(st.tuples(st.integers(0, 200), st.integers(0, 0xFFFF)).map(list), max_size=4)),
            "steer": draw(st.lists(st.tuples(st.integers(0, 200), st.integers(0, 3)).map(list), min_size=1, max_size=6))}
    opts = {}
    if draw(st.integers(0, 2)) == 0:
        opts["g"] = True
    if draw(st.integers(0, 3)) == 0:
        opts["a"] = True
    if draw(st.integers(0, 4)) == 0:
        opts["m"] = draw(st.sampled_from([[], ["443:8081"]]))
    if draw(st.integers(0, 11)) == 0:
        opts["d"] = draw(st.sampled_from(["INFO", "DEBUG"]))
    return {"conns": conns, "order": draw(st.lists(st.integers(0, 5), min_size=1, max_size=8)), "tseed": draw(st.integers(1, 500)), "csum": plan,
            "opts": opts}


# ------------------------------------------------------------------ component: the per-packet verdict
def evaluate_verdict(spec):
    """one TCP or UDP packet (IPv4/IPv6, odd/even length), steered and/or corrupted: calculate_checksum_* must say 'correct' iff
    the receiver rule does"""
    from tlexport.packet import Packet
    from tlexport.checksums import calculate_checksum_tcp, calculate_checksum_udp
    ep = scenario.default_ep(spec["i"] % 200, v6=spec["v6"])
    if spec.get("addr"):
        # address pair whose 16-bit words add up (end-around) to 0xffff - d: implementations that add the pseudo header and the
        # segment in separate steps need a second carry there
        from ipaddress import ip_address
        ep = dict(ep)
        cw = ip_address(ep["cip"]).packed
        sw = bytearray(ip_address(ep["sip"]).packed)
        part = sum(struct.unpack("!%dH" % (len(cw) // 2), cw)) + sum(struct.unpack("!%dH" % (len(sw) // 2 - 1), bytes(sw[:-2])))
        while part > 0xFFFF:
            part = (part & 0xFFFF) + (part >> 16)
        last = (0xFFFF - spec["addr"] - part) % 0xFFFF or 0xFFFF
        sw[-2:] = struct.pack("!H", last)
        ep["sip"] = str(ip_address(bytes(sw)))
    payload = bytes((7 * j + spec["i"]) & 0xFF for j in range(spec["len"]))
    cm, sm = bytes.fromhex(ep["cmac"]), bytes.fromhex(ep["smac"])
    target = TARGETS[spec["target"] % len(TARGETS)]
    bad = spec["bad"]
    wire = spec.get("wire")
    if wire:
        target = "none"         # the steering arithmetic assumes plain headers; decorated frames are checked unsteered
    if spec["proto"] == "tcp":
        stv = steered_tcp(ep, False, spec["seq"], 77, payload, target) if target != "none" else None
        fr = netio.tcp_frame(cm, sm, ep["cip"], ep["sip"], ep["cport"], ep["sport"], spec["seq"], 77, 0x18, payload, steer=stv,
                             bad_csum=(1 + bad % 0xFFFE) if bad else False, wire=wire)
        steered = stv is not None
    else:
        steered = False
        if target != "none" and len(payload) >= 2:
            pl = payload if len(payload) % 2 == 0 else payload + b"\x00"
            udp0 = struct.pack("!HHHH", ep["cport"], ep["sport"], 8 + len(pl), 0) + pl[:-2] + b"\x00\x00"
            d = steer_delta(netio.unfolded_sum(ep["cip"], ep["sip"], 17, udp0), target)
            if d is not None and d <= 0xFFFF:
                payload = pl[:-2] + struct.pack("!H", d)
                steered = True
        fr = netio.udp_frame(cm, sm, ep["cip"], ep["sip"], ep["cport"], ep["sport"], payload, bad_csum=(1 + bad % 0xFFFE) if bad else False, wire=wire)
    p = Packet(fr, 1.0)
    try:
        got = calculate_checksum_tcp(p) if spec["proto"] == "tcp" else calculate_checksum_udp(p)
    except Exception as e:  # noqa
        return {"sig": f"{spec['proto']} checksum verdict raises {type(e).__name__}", "detail": f"{spec}: {e}", "nontrivial": True}
    want = not bad
    sig = None
    if bool(got) != want:
        sig = f"{spec['proto']}/{'v6' if spec['v6'] else 'v4'}: " + ("correct checksum judged bad" if want else "bad checksum judged correct")
    w = wire or {}
    l4 = 14 + (4 if w.get("vlan") else 0) + ((40 + 8 * w.get("ip6ext", 0)) if spec["v6"] else (20 + w.get("ip4opt", 0)))
    field = struct.unpack("!H", (fr[l4:][16:18] if spec["proto"] == "tcp" else fr[l4:][6:8]))[0]
    labels = [spec["proto"], "v6" if spec["v6"] else "v4", "odd" if spec["len"] % 2 else "even", "target:" + (target if steered else "none"),
              "field:%s" % ("0x0000" if field == 0 else "0xffff" if field == 0xFFFF else "0xfffe" if field == 0xFFFE else "other")]
    if spec.get("addr") is not None:
        labels.append("address-words-sum-near-0xffff")
    labels += ["wire:" + k for k in sorted(w) if (k != "ip4opt" or not spec["v6"]) and (k != "ip6ext" or spec["v6"])]
    return {"sig": sig, "detail": f"{spec} field {field:#06x} verdict {got}", "nontrivial": steered or bool(bad) or bool(w), "labels": labels}


VERDICT = st.builds(lambda i, v6, proto, ln, seq, target, bad, wire, addr: {"i": i, "v6": v6, "proto": proto, "len": ln, "seq": seq, "target": target, "bad": bad,
                                                                             "wire": wire, "addr": addr},
                    st.integers(0, 199), st.booleans(), st.sampled_from(["tcp", "udp"]), st.one_of(st.integers(1, 64), st.integers(1, 1400)),
                    st.integers(0, 2 ** 32 - 1), st.integers(0, 4), st.one_of(st.just(0), st.just(0), st.integers(1, 0xFFFF)), strategies.WIRE,
                    st.sampled_from([None, None, 0, 1, 2, 15, 0x100, 0x600]))


def stages(tier):
    quick = tier == "quick"
    return [
        Stage("sum-boundaries", evaluate_sum, specs=boundary_sum_specs()),
        Stage("sum-random", evaluate_sum, strategy=lambda t: SUM_SPEC, examples=20000 if quick else 1000000),
        Stage("packet-verdict", evaluate_verdict, strategy=lambda t: VERDICT, examples=8000 if quick else 400000),
        Stage("e2e", evaluate_e2e, strategy=lambda t: e2e_spec(), examples=400 if quick else 10000),
    ]


RULE = ("component: ones_complement_checksum against the reference fold for word lists built to hit every carry/fold boundary (sum exactly "
        "0x10000, first fold == 0x10000, fold == 0xffff) and random ones; calculate_checksum_tcp/udp on generated packets (IPv4/IPv6, odd/even "
        "lengths) whose sum is steered through the free TCP window/urgent fields or a free UDP payload word to the targets {first fold = "
        "0x10000, checksum 0x0000 (sent as 0xffff for UDP), 0xfffe, 0x0001} and/or whose field is perturbed, plain or with 802.1Q tag / TCP options / IPv4 "
        "options / IPv6 hop-by-hop and destination-options headers / Ethernet padding (unsteered); end to end: export(-c, capture) == "
        "export(no -c, capture minus corrupted packets) for TLS + QUIC + UDP noise captures.  Non-trivial: sum > 0xffff (sum stages); steered or "
        "corrupted packet (verdict); >= 1 corrupted and >= 1 steered packet and non-empty export (e2e)")
ASSUMPTIONS = ["a checksum is 'bad' iff the receiver's verification (sum over pseudo header and segment incl. the field folds to 0xffff) fails; "
               "corrupted fields are perturbed by a delta != 0 in one's-complement arithmetic",
               "UDP/IPv4 datagrams with checksum field 0 ('no checksum') and TCP segments with field 0xffff are not generated (conformant senders "
               "do not produce the latter)",
               "QUIC packets cannot be steered (ciphertext); UDP steering uses plain UDP bystander packets"]

CHECK = Check(PID, "exploration", RULE, ASSUMPTIONS, stages)
