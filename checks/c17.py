"""C17 - QUIC frames are parsed exactly; arbitrary bytes cannot hang the parser."""
import itertools
import os
import random
import subprocess
import sys
import tempfile

from hypothesis import strategies as st

import engine
import runner  # noqa: F401
import quicref
from engine import Stage, Check, StageResult

PID = "C17"
V62 = (1 << 62) - 1
ALLOWED_EXC = ("IndexError", "ValueError", "error", "KeyError", "TypeError", "OverflowError")   # "signalling an error"


class TooManySteps(Exception):
    pass


ALLOWED = {   # RFC 9000 12.4, table 3: which frames a packet type may carry (1-RTT: all)
    "INITIAL": {"pad", "ping", "ack", "crypto", "close"}, "HANDSHAKE": {"pad", "ping", "ack", "crypto", "close"},
    "RTT_O": {"pad", "ping", "reset", "stop", "stream", "maxdata", "maxsd", "maxstreams", "blocked", "sblocked", "ssblocked", "ncid", "pc", "close", "dgram"},
}


def packet_of_type(ptype):
    """the packet the frames are said to come from: a Long / ShortQuicPacket object of that type (constructed without a header)"""
    if ptype is None:
        return None
    from tlexport.quic.quic_packet import LongQuicPacket, ShortQuicPacket, QuicPacketType, QuicHeaderType
    cls = ShortQuicPacket if ptype == "RTT_1" else LongQuicPacket
    p = object.__new__(cls)
    p.packet_type = getattr(QuicPacketType, ptype)
    p.header_type = QuicHeaderType.SHORT if ptype == "RTT_1" else QuicHeaderType.LONG
    p.isserver, p.ts, p.first_byte = False, 0, b"\x40"
    return p


def guarded_parse(payload, bound, ptype=None):
    """parse_frames under a deterministic step budget: every Python call made from tlexport.quic code counts one step"""
    from tlexport.quic.quic_frame import parse_frames
    n = [0]
    src = packet_of_type(ptype)

    def prof(frame, event, arg):
        if event == "call" and "tlexport" in frame.f_code.co_filename:
            n[0] += 1
            if n[0] > bound:
                sys.setprofile(None)
                raise TooManySteps()
    sys.setprofile(prof)
    try:
        return parse_frames(payload, src), n[0]
    finally:
        sys.setprofile(None)


# ------------------------------------------------------------------ (a) well-formed frame sequences
W = st.sampled_from([None, None, 1, 2, 4, 8])
VI = st.one_of(st.integers(0, 63), st.integers(0, 16383), st.integers(0, (1 << 30) - 1), st.integers(0, V62), st.sampled_from([63, 64, 16383, 16384, (1 << 30) - 1, 1 << 30, V62]))
SMALL = st.integers(0, 300)


def frame_desc():
    return st.one_of(
        st.tuples(st.just("pad"), st.integers(1, 40)),
        st.tuples(st.just("ping")),
        st.tuples(st.just("ack"), VI, VI, VI, st.lists(st.tuples(VI, VI).map(list), max_size=5), st.one_of(st.none(), st.tuples(VI, VI, VI).map(list)), W),
        st.tuples(st.just("reset"), VI, VI, VI, W),
        st.tuples(st.just("stop"), VI, VI, W),
        st.tuples(st.just("crypto"), VI, SMALL, W),
        st.tuples(st.just("token"), st.integers(1, 100), W),
        st.tuples(st.just("stream"), VI, SMALL, st.one_of(st.none(), VI), st.booleans(), st.booleans(), W),
        st.tuples(st.just("stream"), VI, SMALL, st.one_of(st.none(), VI), st.booleans(), st.just(True), W),
        st.tuples(st.just("maxdata"), VI, W),
        st.tuples(st.just("maxsd"), VI, VI, W),
        st.tuples(st.just("maxstreams"), VI, st.booleans(), W),
        st.tuples(st.just("blocked"), VI, W),
        st.tuples(st.just("sblocked"), VI, VI, W),
        st.tuples(st.just("ssblocked"), VI, st.booleans(), W),
        st.tuples(st.just("ncid"), VI, VI, st.integers(1, 20), W),
        st.tuples(st.just("rcid"), VI, W),
        st.tuples(st.just("pc")),
        st.tuples(st.just("pr")),
        st.tuples(st.just("close"), VI, VI, st.integers(0, 60), st.booleans(), W),
        st.tuples(st.just("hsdone")),
        st.tuples(st.just("dgram"), SMALL, st.booleans(), W),
    ).map(list)


@st.composite
def frame_seq(draw):
    # the frames come from a packet of some type (or from none, as in the repository's own tests); a type restricts the frames to those
    # RFC 9000 12.4 permits in it
    ptype = draw(st.sampled_from([None, None, "RTT_1", "RTT_1", "RTT_O", "RTT_O", "INITIAL", "HANDSHAKE"]))
    frames = draw(st.lists(frame_desc(), min_size=1, max_size=12))
    if ptype in ALLOWED:
        frames = [f for f in frames if f[0] in ALLOWED[ptype]] or [["ping"]]
        if ptype != "RTT_O":
            frames = [f[:4] + [False] + f[5:] if f[0] == "close" else f for f in frames]      # only the transport form of CONNECTION_CLOSE
    return {"seed": draw(st.integers(0, 2 ** 32 - 1)), "frames": frames, "ptype": ptype}


def encode_seq(spec):
    rnd = random.Random(spec["seed"])
    payload = b""
    truth = []
    n = len(spec["frames"])
    for i, fd in enumerate(spec["frames"]):
        fd = list(fd)
        if fd[0] == "stream" and not fd[5] and i != n - 1:
            fd[5] = True          # a frame without length field extends to the end of the packet: only legal last
        if fd[0] == "dgram" and not fd[2] and i != n - 1:
            fd[2] = True
        b, t = quicref.encode_frame(fd, rnd)
        t["len"] = len(b)
        t["pos"] = len(payload)
        if t["t"] == 0 and truth and truth[-1]["t"] == 0:
            truth[-1]["len"] += len(b)          # adjacent PADDING frames are indistinguishable
        else:
            truth.append(t)
        payload += b
    return payload, truth


def evaluate_seq(spec):
    payload, truth = encode_seq(spec)
    try:
        frames, steps = guarded_parse(payload, 60 * len(payload) + 200, spec.get("ptype"))
    except TooManySteps:
        return {"sig": "well-formed: parser does not terminate", "detail": payload.hex()[:200], "nontrivial": True}
    except Exception as e:  # noqa
        return {"sig": "well-formed: exception " + type(e).__name__, "detail": f"{e} on {payload.hex()[:200]}", "nontrivial": True}
    sig, detail = None, ""
    if len(frames) != len(truth):
        sig, detail = "well-formed: frame count", f"got {len(frames)} frames want {len(truth)}"
    else:
        pos = 0
        for f, t in zip(frames, truth):
            ft = f.frame_type
            if ft != t["t"]:
                sig, detail = "well-formed: frame type", f"at {pos}: got {ft} want {t['t']}"
                break
            if f.length != t["len"]:
                sig, detail = f"well-formed: frame length (type {t['t']:#x})", f"at {pos}: got {f.length} want {t['len']}"
                break
            if 0x08 <= t["t"] <= 0x0f:
                got = (f.stream_id, f.offset, bool(f.fin), bytes(f.stream_data))
                want = (t["sid"], t["off"], t["fin"], t["data"])
                if got != want:
                    sig, detail = "well-formed: STREAM fields", f"got {got[:3]} len {len(got[3])} want {want[:3]} len {len(want[3])}"
                    break
            if t["t"] == 6 and (f.offset, bytes(f.crypto)) != (t["off"], t["data"]):
                sig, detail = "well-formed: CRYPTO fields", f"got off {f.offset} len {len(f.crypto)} want off {t['off']} len {len(t['data'])}"
                break
            if t["t"] == 0x18 and bytes(f.connection_id) != t["cid"]:
                sig, detail = "well-formed: connection id", f"got {bytes(f.connection_id).hex()} want {t['cid'].hex()}"
                break
            pos += f.length
        if sig is None and sum(f.length for f in frames) != len(payload):
            sig, detail = "well-formed: bytes not accounted exactly once", f"sum {sum(f.length for f in frames)} payload {len(payload)}"
    kinds = {t["t"] for t in truth}
    labels = ["type:%#04x" % k for k in kinds]
    widths = {fd[-1] for fd in spec["frames"] if len(fd) > 1 and fd[-1] in (1, 2, 4, 8)}
    labels += ["width:%d" % w for w in widths]
    nontrivial = len(truth) >= 3 and len(kinds) >= 2 and any(k == 6 or 8 <= k <= 15 for k in kinds)
    return {"sig": sig, "detail": detail, "nontrivial": nontrivial, "labels": labels}


# ------------------------------------------------------------------ (c) arbitrary bytes
def check_arbitrary(payload: bytes):
    """-> (sig, detail).  Terminates within the step bound; returns frames or raises an ordinary error; nothing invented."""
    try:
        frames, steps = guarded_parse(payload, 60 * len(payload) + 200)
    except TooManySteps:
        return "arbitrary: parser does not terminate", payload.hex()[:120]
    except RecursionError:
        return "arbitrary: recursion", payload.hex()[:120]
    except Exception as e:  # noqa: signalling an error is allowed
        if type(e).__name__ in ALLOWED_EXC or isinstance(e, (IndexError, ValueError)):
            return None, "error:" + type(e).__name__
        return "arbitrary: unexpected exception " + type(e).__name__, f"{e}: {payload.hex()[:120]}"
    pos = 0
    for f in frames:
        if f.length is None or f.length <= 0:
            return "arbitrary: frame with non-positive length", f"{type(f).__name__} at {pos}: {payload.hex()[:120]}"
        for attr in ("stream_data", "crypto", "connection_id", "token", "payload", "data", "reason_phrase"):
            v = getattr(f, attr, None)
            if isinstance(v, (bytes, bytearray, memoryview)) and len(v):
                v = bytes(v)
                # "never invents data beyond the packet": whatever a frame carries must come from the packet, at or after
                # the frame's own start (nothing is claimed about frames of unknown type beyond that)
                if v not in payload[pos:]:
                    return "arbitrary: data not taken from the packet", f"{type(f).__name__}.{attr} at {pos}: {payload.hex()[:120]}"
        pos += f.length
    if pos < len(payload):
        return "arbitrary: returned before the end of the payload", payload.hex()[:120]
    return None, "frames"


def evaluate_bytes(spec):
    payload = bytes.fromhex(spec["hex"]) if isinstance(spec, dict) else bytes(spec)
    sig, detail = check_arbitrary(payload)
    return {"sig": sig, "detail": detail, "nontrivial": len(payload) >= 2 and detail == "frames", "key": payload.hex()[:64],
            "labels": ["bytes:" + (detail if sig is None else "fail")]}


def short_strings():
    out = [{"hex": ""}]
    for n in (1, 2):
        for t in itertools.product(range(256), repeat=n):
            out.append({"hex": bytes(t).hex()})
    return out


@st.composite
def structured_bytes(draw):
    """byte strings that look like frames: a valid frame sequence, then mutated (truncate / overwrite / splice)"""
    spec = draw(frame_seq())
    payload, _ = encode_seq(spec)
    b = bytearray(payload)
    for _ in range(draw(st.integers(0, 4))):
        if not b:
            break
        op = draw(st.integers(0, 3))
        i = draw(st.integers(0, len(b) - 1))
        if op == 0:
            b[i] = draw(st.integers(0, 255))
        elif op == 1:
            del b[i:]
        elif op == 2:
            b[i:i] = draw(st.binary(max_size=8))
        else:
            b[i] = draw(st.sampled_from([0x00, 0x3f, 0x40, 0x7f, 0x80, 0xbf, 0xc0, 0xff]))
    return {"hex": bytes(b).hex()}


def random_bytes():
    return st.one_of(st.binary(max_size=64), st.binary(max_size=1500), structured_bytes(), structured_bytes()).map(
        lambda x: x if isinstance(x, dict) else {"hex": x.hex()})


# ------------------------------------------------------------------ (b) coverage-guided fuzzing (atheris / libFuzzer)
def fuzz_stage(name, runs, corpus):
    def custom(ctx):
        sr = StageResult(name)
        deps = os.path.join(engine.VERIF, ".deps")
        if not os.path.isdir(os.path.join(deps, "atheris")):
            sr.extra["skipped"] = "atheris not installed (run setup.sh)"
            return sr
        work = tempfile.mkdtemp(dir=engine.work_root(), prefix="fuzz-")
        cdir = os.path.join(work, "corpus")
        os.makedirs(cdir)
        if corpus == "seeded":
            rnd = random.Random(ctx["seed"])
            # seeds: a few valid sequences built by the reference encoder (deterministic)
            for i in range(40):
                fr = [["stream", i, 20 + i, None, False, True, None], ["ack", 5, 1, 2, [[1, 1]], None, None], ["crypto", 0, 30, None], ["ping"],
                      ["ncid", 1, 0, 8, None], ["pad", 3], ["close", 1, 2, 5, False, None], ["dgram", 9, True, None]]
                rnd.shuffle(fr)
                payload, _ = encode_seq({"seed": i, "frames": fr[:1 + i % 8]})
                with open(os.path.join(cdir, "seed%d" % i), "wb") as f:
                    f.write(payload)
        env = dict(os.environ)
        env["PYTHONPATH"] = os.pathsep.join([deps, os.path.join(engine.VERIF, "lib"), engine.VERIF, runner.REPO])
        nproc = 4 if ctx["tier"] == "quick" else engine.NPROC
        procs = []
        for w in range(nproc):
            wd = os.path.join(work, f"w{w}")
            os.makedirs(wd)
            cmd = [sys.executable, os.path.join(engine.VERIF, "fuzz", "fuzz_frames.py"), f"-runs={runs // nproc}", f"-seed={1 + (ctx['seed'] * 31 + w) % 100000}",
                   "-max_len=1500", f"-artifact_prefix={wd}/", "-print_final_stats=1", cdir if w == 0 else os.path.join(wd, "c")]
            if w:
                os.makedirs(os.path.join(wd, "c"))
                for fn in os.listdir(cdir):
                    os.link(os.path.join(cdir, fn), os.path.join(wd, "c", fn))
            procs.append((wd, subprocess.Popen(cmd, env=env, cwd=wd, stdout=open(os.path.join(wd, 'fuzz.log'), 'w'), stderr=subprocess.STDOUT, text=True)))
        execs = 0
        for wd, p in procs:
            p.wait()          # output goes to a file: a full pipe would block the fuzzers one after the other
            with open(os.path.join(wd, "fuzz.log")) as lf:
                out = lf.read()
            for ln in out.splitlines():
                if ln.startswith("stat::number_of_executed_units:"):
                    execs += int(ln.split(":")[-1])
            for fn in os.listdir(wd):
                if fn.startswith(("crash-", "timeout-", "oom-")):
                    data = open(os.path.join(wd, fn), "rb").read()
                    sig, detail = check_arbitrary(data)
                    if sig is None and fn.startswith("timeout-"):
                        sig, detail = "arbitrary: fuzzer timeout", data.hex()[:120]
                    if sig:
                        sr.failures.append((sig, detail, {"hex": data.hex()}))
                    else:
                        sr.extra["unreproduced_artifacts"] = sr.extra.get("unreproduced_artifacts", 0) + 1
            if p.returncode not in (0,) and not any(f.startswith(("crash-", "timeout-", "oom-")) for f in os.listdir(wd)):
                raise RuntimeError("fuzzer failed without artifact:\n" + out[-2000:])
        sr.evaluations = execs
        sr.extra["fuzzer_execs"] = execs
        sr.extra["corpus"] = corpus
        return sr
    return Stage(name, evaluate=evaluate_bytes, custom=custom)


def stages(tier):
    quick = tier == "quick"
    return [
        Stage("well-formed", evaluate_seq, strategy=lambda t: frame_seq(), examples=20000 if quick else 1000000),
        Stage("short-strings", evaluate_bytes, specs=short_strings(), chunksize=4200),
        Stage("random-bytes", evaluate_bytes, strategy=lambda t: random_bytes(), examples=10000 if quick else 600000),
        fuzz_stage("atheris-empty-corpus", 60000 if quick else 8000000, "empty"),
        fuzz_stage("atheris-seeded-corpus", 60000 if quick else 8000000, "seeded"),
    ]


RULE = ("(a) Hypothesis sequences of 1..12 well-formed frames of every RFC 9000/9221 type with forced varint widths 1/2/4/8 (non-minimal "
        "included), round trip against the encoder's ground truth (type, length, STREAM id/offset/fin/data, CRYPTO offset/data, connection id, "
        "sum of lengths == payload length); (b) atheris/libFuzzer on parse_frames with the same oracle as (c), empty and seeded corpus; (c) "
        "all byte strings of length <= 2 and random / mutated-valid strings up to 1500 bytes: terminates within 60*len+200 Python calls "
        "(deterministic step count via sys.setprofile), returns frames or raises, data fields are substrings of the packet at or after their frame's start.  "
        "Non-trivial: >= 3 frames of >= 2 types incl. STREAM or CRYPTO (a); input >= 2 bytes that parses into frames (c)")
ASSUMPTIONS = ["frames without a length field (STREAM without LEN, DATAGRAM 0x30) are generated only as the last frame, as RFC 9000 requires",
               "an exception of an ordinary kind (IndexError, ValueError, struct.error, ...) counts as 'signalling an error' on arbitrary bytes"]

CHECK = Check(PID, "exploration", RULE, ASSUMPTIONS, stages)
