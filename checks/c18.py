"""C18 - the export is a deterministic function of capture, secrets and options."""
import hashlib
import os

from hypothesis import strategies as st

import engine
import oracle
import runner
import scenario
import strategies
from engine import Stage, Check

PID = "C18"


def _sha(path):
    if not os.path.exists(path):
        return None
    with open(path, "rb") as f:
        return hashlib.sha256(f.read()).hexdigest()


def _write(spec, name):
    b = scenario.build(spec)
    wd = engine.workdir()
    inpath, klpath = scenario.write_capture(b, wd, name=name)
    return b, wd, inpath, klpath


def evaluate_subprocess(spec):
    """fresh processes: hash seeds, working directories, environments, numbers of usable CPUs"""
    b, wd, inpath, klpath = _write(spec, "det")
    digests = []
    sig, detail = None, ""
    runs = [("0", wd, {}), ("1", "/", {"TZ": "Pacific/Kiritimati", "LANG": "tr_TR.UTF-8", "COLUMNS": "20", "PYTHONOPTIMIZE": str(1 + spec["hs"][0] % 2)}),
            (str(spec["hs"][0]), os.path.dirname(wd), {"HOME": "/nonexistent", "TZ": "UTC", "PYTHONIOENCODING": "ascii"}),
            (str(spec["hs"][1]), wd, {"LC_ALL": "POSIX", "PYTHONUTF8": "0", "PYTHONCOERCECLOCALE": "0", "PYTHONDONTWRITEBYTECODE": "1"})]
    cpus = [None, 2, 1, 3]          # ... and different numbers of usable CPUs
    for i, (hs, cwd, env) in enumerate(runs):
        out = os.path.join(wd, f"det{i}.pcapng")
        if os.path.exists(out):
            os.unlink(out)
        if i % 2:        # every other run finds an older, longer file at its output path
            with open(out, "wb") as f:
                f.write(b"\x0a\x0d\x0d\x0a" + bytes(150000 + i))
        argv = scenario.argv_for(spec, inpath, klpath, out)
        r = runner.run_subprocess(argv, cwd=cwd, env=env, hashseed=hs, cpus=cpus[i])
        if r.code != 0 or r.exc:
            sig, detail = f"subprocess run failed: {r.exc_sig or r.code}", (r.stderr or "")[-300:]
            break
        digests.append((hs, _sha(out)))
        os.unlink(out)
    if sig is None and len({d for _, d in digests}) != 1:
        sig = "output differs between fresh processes (hash seed / cwd / environment)"
        detail = str(digests)
    for p in (inpath, klpath):
        if p and os.path.exists(p):
            os.unlink(p)
    return _result(spec, b, sig, detail, len(runs), "subprocess")


def evaluate_inprocess(spec):
    """same process: run A twice without any reset by the harness, then A, B, A"""
    b, wd, inpath, klpath = _write(spec, "detA")
    spec_b = dict(spec)
    spec_b["conns"] = [dict(c, seed=c["seed"] + 1) for c in spec["conns"]][::-1]
    if spec.get("container_b") is not None:
        spec_b["container"] = spec["container_b"]      # ... and in another container (time resolution, byte order)
    if spec.get("opts_b") is not None:
        spec_b["opts"] = spec["opts_b"]        # the other run may also use other options (-p, -m, -a, -c)
    bb, _, inb, klb = _write(spec_b, "detB")
    out = os.path.join(wd, "det.out.pcapng")

    def run(inp, kl, reset, which="A"):
        # the output path is NOT cleaned between the runs: whatever an earlier run (or anything else) left there must not matter
        r = runner.run_inproc(scenario.argv_for(spec if which == "A" else spec_b, inp, kl, out), reset=reset)
        return r, _sha(out)
    sig, detail = None, ""
    # references: what a fresh process exports for A and for B
    ref = {}
    for nm, inp, kl in (("A", inpath, klpath), ("B", inb, klb)):
        if os.path.exists(out):
            os.unlink(out)
        r = runner.run_subprocess(scenario.argv_for(spec if nm == "A" else spec_b, inp, kl, out), hashseed="0")
        if r.code != 0 or r.exc:
            sig, detail = f"subprocess run failed: {r.exc_sig or r.code}", (r.stderr or "")[-300:]
            break
        ref[nm] = _sha(out)
    if sig is None:
        with open(out, "wb") as f:          # an older, much longer file is in the way
            f.write(b"\x0a\x0d\x0d\x0a" + bytes(200000))
        seq = [("A", inpath, klpath, "A"), ("A again", inpath, klpath, "A"), ("B after A", inb, klb, "B"), ("A after B", inpath, klpath, "A"),
               ("B again", inb, klb, "B")]
        for name, inp, kl, which in seq:
            r, d = run(inp, kl, False, which)
            if r.exc or r.code:
                sig, detail = f"in-process repetition: run '{name}' fails ({r.exc_sig or r.code})", (r.exc or "")[-300:]
                break
            if d != ref[which]:
                n0 = len(open(out, "rb").read())
                sig, detail = f"in-process repetition: output of run '{name}' differs from what a fresh process exports", f"{n0} bytes"
                break
        if sig is None:
            # an earlier run that did not finish: A is processed but its output cannot be written (the directory does not exist); whatever
            # that run leaves behind must not reach the next one
            runner.run_inproc(scenario.argv_for(spec, inpath, klpath, os.path.join(wd, "no-such-directory", "x.pcapng")), reset=False)
            r, d = run(inb, klb, False, "B")
            if r.exc or r.code:
                sig, detail = f"in-process repetition: run 'B after a failed run of A' fails ({r.exc_sig or r.code})", (r.exc or "")[-300:]
            elif d != ref["B"]:
                sig, detail = "in-process repetition: output of run 'B after a failed run of A' differs from what a fresh process exports", ""
    runner.reset_state()
    for p in (inpath, klpath, inb, klb, out):
        if p and os.path.exists(p):
            os.unlink(p)
    return _result(spec, b, sig, detail, 9, "inprocess")


def _result(spec, b, sig, detail, evals, mode):
    ncid = 0
    feats = set()
    for c in b.conns:
        if hasattr(c, "all_cids"):
            ncid += len(c.all_cids())
            feats |= c.features
    labels = [mode, "conns:%d" % len(spec["conns"]), "cids:%s" % ("0" if not ncid else "1-3" if ncid <= 3 else "4+")]
    if "cid_prefix_related" in feats:
        labels.append("cid_prefix_related")
    if spec.get("container"):
        labels.append("container:" + "/".join(sorted(spec["container"])))
    return {"sig": sig, "detail": detail, "nontrivial": len(spec["conns"]) >= 2 or ncid >= 3, "labels": labels, "evals": evals}


@st.composite
def spec_strategy(draw):
    n = draw(st.integers(1, 3))
    many_tls = draw(st.integers(0, 3)) == 0        # several TLS sessions (more than a process restricted to 2-3 CPUs has workers for)
    if many_tls:
        n = draw(st.integers(4, 6))
    conns = []
    for i in range(n):
        k = "tls" if many_tls else draw(st.sampled_from(["quic", "quic", "tls"]))
        ep = strategies.endpoints(idx=i, sports=(443, 443, 8443))
        if k == "tls":
            c = draw(strategies.tls_conn(max_records=4, max_len=200, ep=ep, delivery=strategies.tcp_delivery(modes=("rec", "cuts"), wrap=False)))
            # "all captures": also connections whose export is not claimed - DEFLATE selected by the server, HelloRetryRequest
            if c["version"] != 0x0304 and draw(st.integers(0, 3)) == 0:
                c["sh_comp"] = True
            elif c["version"] == 0x0304 and draw(st.integers(0, 3)) == 0:
                c["hrr"] = draw(st.integers(1, 2))
        else:
            c = draw(strategies.quic_conn(max_steps=8, ep=ep))
            # several CIDs of different lengths, some extending / being a prefix of a CID in use
            extra = []
            for _ in range(draw(st.integers(0, 3))):
                d = draw(st.integers(0, 1))
                extra.append({"op": "ncid", "d": d, "len": draw(st.integers(1, 8)), "rel": draw(st.sampled_from(["ext", "prefix", None]))})
                extra.append({"op": "data", "d": 1 - d, "pk": [{"fr": [["stream", 0, 20, None, False, True, None]], "gap": 0, "pnl": 0}]})
                if draw(st.booleans()):
                    extra.append({"op": "usecid", "d": 1 - d, "i": draw(st.integers(0, 3))})
                    extra.append({"op": "data", "d": 1 - d, "pk": [{"fr": [["stream", 4, 21, None, False, True, None]], "gap": 0, "pnl": 0}]})
            c["steps"] = c["steps"][:4] + extra + c["steps"][4:]
        c["seed"] = c["seed"] * 8 + i
        conns.append(c)
    sc = {"conns": conns, "order": draw(st.lists(st.integers(0, 3), min_size=1, max_size=6)), "tseed": draw(st.integers(1, 500)),
          "hs": [draw(st.integers(2, 4000)), draw(st.integers(2, 4000))],
          "opts": {"a": draw(st.booleans())}}
    # containers that carry less than the usual: packets without a timestamp of their own (Simple Packet Blocks), second resolution
    # the other capture of the in-process stage may be run with other options; some servers listen on a port that only those options select
    if draw(st.booleans()):
        sc["opts_b"] = {"a": draw(st.booleans()), "c": draw(st.booleans()), "p": draw(st.lists(st.sampled_from([8443, 4433, 50000]), min_size=1, max_size=2)),
                        "m": draw(st.sampled_from([None, [], ["443:8081", "8443:9443"]]))}
    cont = draw(st.sampled_from([None, None, None, {"spb": [1, 0]}, {"spb": [2, 1]}, {"spb": [3, 0]}, {"tsresol": 0}, {"tsresol": 3, "tsoffset": 7}]))
    if cont:
        sc["container"] = cont
    cb = draw(st.sampled_from([None, None, {"tsresol": 9}, {"tsresol": 3, "endian": ">"}, {"tsresol": 9, "ifaces": 2}, {"fmt": "pcap", "nano": True}]))
    if cb:
        sc["container_b"] = cb
    return sc


def stages(tier):
    quick = tier == "quick"
    return [
        Stage("fresh-processes", evaluate_subprocess, strategy=lambda t: spec_strategy(), examples=64 if quick else 2000, shrink=False),
        Stage("in-process-repetition", evaluate_inprocess, strategy=lambda t: spec_strategy(), examples=128 if quick else 4000),
    ]


RULE = ("scenarios of 1-3 TLS/QUIC connections (QUIC with several CIDs of different lengths, incl. NEW_CONNECTION_ID CIDs that extend or are a "
        "prefix of a CID in use) are exported (a) by 4 fresh `python -m tlexport.main` processes with PYTHONHASHSEED 0 / 1 / two drawn values, three "
        "working directories and perturbed TZ/LANG/COLUMNS/HOME/LC_ALL, (b) in one process: A, A again, B, A, B with no reset between the runs (B = another capture with another key log of the same "
        "size, in half of the cases run with other options: -p lists that select a port some servers use, -m, -a, -c), all writing to the same output path, which initially holds a longer stale file, then a run of A whose output cannot be written followed by B; each compared with what a fresh process exports for the same input; oracle: sha256 of the output file identical for the same "
        "(capture, secrets, options); some captures store packets in Simple Packet Blocks (no timestamps) or with a coarse if_tsresol.  Non-trivial: >= 2 sessions or >= 3 CIDs; evaluations count "
        "TLExport runs")
ASSUMPTIONS = ["the capture and key-log files are byte-identical between the runs (same paths)"]

CHECK = Check(PID, "exploration", RULE, ASSUMPTIONS, stages)
