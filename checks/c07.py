"""C07 - exported packets keep the endpoints, direction and capture time of their origin."""
from ipaddress import ip_address

from hypothesis import strategies as st

import engine
import oracle
import runner  # noqa: F401
import scenario
import strategies
from engine import Stage, Check

PID = "C07"


def _endpoint_ok(p, ep, from_server, out_sport=None):
    cm, sm = bytes.fromhex(ep["cmac"]), bytes.fromhex(ep["smac"])
    cip, sip = ip_address(ep["cip"]).packed, ip_address(ep["sip"]).packed
    sport = ep["sport"] if out_sport is None else out_sport
    if p.v6 != ep["v6"]:
        return "IP version"
    if from_server:
        want = (sm, cm, sip, cip, sport, ep["cport"])
    else:
        want = (cm, sm, cip, sip, ep["cport"], sport)
    got = (p.smac, p.dmac, p.sip, p.dip, p.sport, p.dport)
    names = ("source MAC", "destination MAC", "source IP", "destination IP", "source port", "destination port")
    for n, g, w in zip(names, got, want):
        if g != w:
            return n
    return None


def evaluate_tls(spec):
    b = scenario.build(spec)
    o = oracle.run_e2e(b, engine.workdir(), opts=spec.get("opts"))
    cs, conn = spec["conns"][0], b.conns[0]
    ep = cs["ep"]
    out = spec.get("out_sport")       # exported server port when the case uses -m (None: the original one); C10 judges the mapping itself
    sig = oracle.base_failure(o)
    detail = (o.run.exc or "")[-300:] if sig else ""
    spans = scenario.record_spans(conn)
    multi = False
    strong = True
    if sig is None:
        s0, d0 = oracle.tls_flow_check(o, conn, ep, out)
        if s0:
            return {"sig": "content (C01): " + s0, "detail": d0, "nontrivial": False}
        key, c, s = oracle.ep_key(ep, 6, out)
        pk = o.flows.get(key)
        if pk:
            stt = oracle.tcp_streams(pk)
            # plaintext ranges of the application records per direction, with the capture times of the input packets overlapping each
            recs = {False: [], True: []}
            off = {False: 0, True: 0}
            for srv, a, e, tag, ti in spans:
                if tag != "APP":
                    continue
                n = len(conn.truth_records[ti][1])
                times = [p.ts for p in b.pkts if p.conn == 0 and p.proto == "tcp" and p.payload and p.srv == srv and p.rec_span[0] < e and p.rec_span[1] > a]
                firsts = []
                seen = set()
                for p in b.pkts:
                    if p.conn == 0 and p.payload and p.srv == srv and p.rec_span[0] < e and p.rec_span[1] > a and p.rec_span not in seen:
                        seen.add(p.rec_span)
                        firsts.append(p.ts)
                recs[srv].append((off[srv], off[srv] + n, set(times), sorted(firsts)))
                if len(set(times)) >= 2:
                    multi = True
                off[srv] += n
            first_data_ts = None
            first_rec_times = set()
            part_idx = {}
            for pi, p in enumerate(pk):
                # the synthetic handshake goes client -> server -> client; every other packet is judged by its own source address
                from_server = (pi == 1) if pi < 3 else (p.sip, p.sport) == s
                bad = _endpoint_ok(p, ep, from_server, out)
                if bad:
                    sig, detail = f"tls: exported packet has the wrong {bad}", repr(p)
                    break
            if sig is None:
                for srv, poff, p in stt["segs"]:
                    first_seg = first_data_ts is None
                    if first_data_ts is None:
                        first_data_ts = p.ts
                    cands = [r for r in recs[srv] if (r[0] <= poff and poff + len(p.payload) <= r[1])]
                    if not cands:
                        sig, detail = "tls: an exported segment does not lie inside one record", f"{'server' if srv else 'client'} offset {poff} len {len(p.payload)}"
                        break
                    if not any(p.ts in r[2] for r in cands):
                        sig = "tls: exported segment's timestamp is not that of an input packet that carried the record"
                        detail = f"{'server' if srv else 'client'} offset {poff}: ts {p.ts}, carrying packets {sorted(cands[0][2])}"
                        break
                    r = cands[0]
                    if first_seg:
                        first_rec_times = set().union(*[c_[2] for c_ in cands])
                    i = part_idx.get((srv, r[0]), 0)
                    part_idx[(srv, r[0])] = i + 1
                    if i >= len(r[3]) or r[3][i] != p.ts:
                        strong = False
            if sig is None and first_data_ts is not None:
                # a zero-length application record is "exported" without producing a segment: the handshake may carry its time
                empty_times = set()
                for srv_ in (False, True):
                    for r in recs[srv_]:
                        if r[0] == r[1]:
                            empty_times |= r[2]
                for h in stt["hs"]:
                    # "the time of the first exported record": the time of any input packet that carried that record
                    if h.ts not in first_rec_times and h.ts not in empty_times:
                        sig, detail = "tls: synthetic TCP handshake does not carry the time of the first exported record", f"{h.ts} vs {first_data_ts}"
                        break
                if sig is None:
                    for h, frm in zip(stt["hs"], (False, True, False)):
                        bad = _endpoint_ok(h, ep, frm, out)
                        if bad:
                            sig, detail = f"tls: synthetic handshake packet has the wrong {bad}", repr(h)
                            break
    both = bool(conn.truth[False]) and bool(conn.truth[True])
    labels = ["tls", "v6" if ep["v6"] else "v4", "ith-part-ith-packet" if strong else "membership-only",
              "interfaces:" + ("+idle" if (spec.get("container") or {}).get("idle_ifaces") else "1"), "-m:" + ("absent" if out is None else "bare" if out == 8080 and not spec["opts"]["m"] else "target-is-the-client-port")]
    return {"sig": sig, "detail": detail, "nontrivial": multi and both, "labels": labels}


def evaluate_ns(spec):
    """capture with nanosecond resolution and times that are not whole microseconds; packet j lies d ns before a full second.  Every
    exported packet of the connection (TLS: handshake and data segments; QUIC: datagrams) must carry the microsecond time - rounded down
    or up - of an input packet of that connection."""
    from fractions import Fraction
    b = scenario.build(spec)
    j, d = spec["anchor"]
    mine = [p for p in b.pkts]
    pj = mine[j % len(mine)]
    for i, p in enumerate(b.pkts):
        p.ts = Fraction(p.ts, 10 ** 6) + Fraction((137 * i) % 1000, 10 ** 9)
    shift = (pj.ts.__ceil__() - Fraction(d, 10 ** 9)) - pj.ts
    for p in b.pkts:
        p.ts += shift
    o = oracle.run_e2e(b, engine.workdir(), container={"fmt": "pcapng", "tsresol": 9, "endian": spec.get("endian", "<")})
    cs, conn = spec["conns"][0], b.conns[0]
    ep = cs["ep"]
    sig = oracle.base_failure(o)
    detail = (o.run.exc or "")[-300:] if sig else ""
    if sig is None:
        s0, d0 = (oracle.tls_flow_check if cs["kind"] == "tls" else oracle.quic_flow_check)(o, conn, ep)
        if s0:
            return {"sig": "content (nanosecond capture): " + s0, "detail": d0, "nontrivial": False}
        allowed = set()
        for p in b.pkts:
            us = p.ts * 10 ** 6
            allowed |= {us.__floor__(), us.__ceil__()}
        key = oracle.ep_key(ep, 6 if cs["kind"] == "tls" else 17)[0]
        for p in o.flows.get(key) or []:
            if p.ts not in allowed:
                near = min(allowed, key=lambda a: abs(a - p.ts))
                sig = "exported packet carries a time that no input packet of the connection has (to the microsecond)"
                detail = f"{p.ts} us; nearest input time {near} us (difference {p.ts - near} us)"
                break
    return {"sig": sig, "detail": detail, "nontrivial": True, "labels": ["ns-capture", cs["kind"], "d:%d" % d]}


def ns_specs():
    out = []
    i = 0
    data = lambda dd, n: {"op": "data", "d": dd, "pk": [{"fr": [["stream", 0, n, None, False, True, None]], "gap": 0, "pnl": 0}]}
    for d in (1, 2, 64, 127, 128, 129, 255, 256, 400, 999, 1000):
        for j in (0, 3, 6, 9, 14):
            for kind in ("tls", "quic"):
                if kind == "tls":
                    c = {"kind": "tls", "version": [0x0303, 0x0304][i % 2], "suite": [0xC02F, 0x1301][i % 2], "seed": 7700 + i,
                         "history": [[0, 30, 0], [1, 300, 0], [0, 9, 0], [1, 50, 0]], "ep": scenario.default_ep(i % 50, v6=bool(i % 3 == 0)),
                         "tcp": {"mode": "rec", "syn": True, "acks": False, "mss": 1400, "isn_c": 10 + i, "isn_s": 90 + i}}
                else:
                    c = {"kind": "quic", "suite": 0x1301, "seed": 7900 + i, "steps": [data(0, 20), data(1, 200), data(0, 21), data(1, 201)],
                         "ep": scenario.default_ep(i % 50, v6=bool(i % 3 == 0))}
                out.append({"conns": [c], "order": [0], "tseed": 1 + i, "anchor": [j, d], "endian": "<>"[i % 2]})
                i += 1
    return out


def evaluate_quic(spec):
    b = scenario.build(spec)
    o = oracle.run_e2e(b, engine.workdir())
    cs, conn = spec["conns"][0], b.conns[0]
    ep = cs["ep"]
    sig = oracle.base_failure(o)
    detail = (o.run.exc or "")[-300:] if sig else ""
    if sig is None:
        s0, d0 = oracle.quic_flow_check(o, conn, ep)
        if s0:
            return {"sig": "content (C02): " + s0, "detail": d0, "nontrivial": False}
        got = oracle.quic_flow_list(o, ep)
        times = [p.ts for p in b.pkts if p.conn == 0 and b"".join(p.rec_span or [])]
        for (srv, pl, p), t in zip(got, times):
            bad = _endpoint_ok(p, ep, srv)
            if bad:
                sig, detail = f"quic: exported datagram has the wrong {bad}", repr(p)
                break
            if p.ts != t:
                sig, detail = "quic: exported datagram does not carry the capture time of its input datagram", f"{p.ts} vs {t}"
                break
    want = conn.expected_export()
    return {"sig": sig, "detail": detail, "nontrivial": len({s_ for s_, _ in want}) == 2 and len(want) >= 3,
            "labels": ["quic", "v6" if ep["v6"] else "v4"]}


def _quic_grid():
    """the deterministic feature grid of C02 (Retry, 0-RTT, key updates, CID switches, packet-number gaps incl. equal truncated numbers in
    one direction, ...), judged here for time and endpoints of every exported datagram"""
    from checks import c02
    return c02.grid_specs()


def tls_strategy(tier):
    deliv = strategies.tcp_delivery(modes=("cuts", "cuts", "flight", "rec"), dups=True, moves=True)
    def with_map(sc, mode):
        # a fifth of the cases run with -m: bare (server port exported as 8080) or with a pair whose target is the connection's own
        # client port, so that both ends of the exported conversation use the same port number
        sc = dict(sc, tseed=1 + sc["tseed"])
        ep = sc["conns"][0]["ep"]
        if mode == 1:
            sc.update(opts={"m": []}, out_sport=8080)
        elif mode == 2:
            sc.update(opts={"m": ["%d:%d" % (ep["sport"], ep["cport"])]}, out_sport=ep["cport"])
        elif mode == 3:
            # the capture describes further interfaces (without packets) with other time parameters, before or between the packets
            sc["container"] = {"idle_ifaces": [[0, 3, 0], [(sc["tseed"] % 7), 9, 3600]][:1 + sc["tseed"] % 2]}
        return sc
    return st.builds(with_map, strategies.single_tls_scenario(max_records=8, max_len=800 if tier == "quick" else 4000, delivery=deliv),
                     st.sampled_from([0, 0, 0, 0, 0, 0, 0, 1, 2, 2, 3, 3]))


def stages(tier):
    quick = tier == "quick"
    return [
        Stage("tls-provenance", evaluate_tls, strategy=tls_strategy, examples=800 if quick else 20000),
        Stage("nanosecond-times-near-a-full-second", evaluate_ns, specs=ns_specs()),
        Stage("quic-feature-grid", evaluate_quic, specs=_quic_grid()),
        Stage("quic-provenance", evaluate_quic, strategy=lambda t: strategies.single_quic_scenario(max_steps=10), examples=1200 if quick else 20000),
    ]


RULE = ("stage nanosecond-times-near-a-full-second: TLS and QUIC captures with if_tsresol 9, times that are not whole microseconds and one packet 1..1000 ns "
        "before a full second - every exported packet carries the (floor or ceiling) microsecond time of an input packet of its connection; other stages: C01/C02 scenarios with arbitrary MAC / IP / port values, IPv4 and IPv6, irregular capture times with arbitrary microsecond parts, "
        "segmentations in which records span several packets and packets hold several records, retransmitted duplicates; provenance model: every "
        "exported data segment lies inside one record and carries the capture time of an input packet whose bytes overlap that record, with the "
        "sender's MAC/IP/port as source and the receiver's as destination (client port unchanged, IP version kept); the synthetic handshake "
        "carries the time of the first exported record; a QUIC datagram carries the time and addresses of its input datagram; times exact to the "
        "microsecond.  Non-trivial: a record spans >= 2 packets with distinct times and both directions export data (TLS); >= 3 datagrams in both "
        "directions (QUIC).  The stronger form (i-th part carries the i-th packet's time) is measured as a label, not required")
ASSUMPTIONS = ["membership semantics for timestamps, as the property states", "the exported server port is judged by C10"]

CHECK = Check(PID, "exploration", RULE, ASSUMPTIONS, stages)
