"""C06 - the output is always a well-formed pcapng of well-formed, reassemblable packets."""
from hypothesis import strategies as st

import engine
import oracle
import runner  # noqa: F401
import scenario
import strategies
import tlsref
from engine import Stage, Check

PID = "C06"


def validity(o):
    """the validity predicate (no expected bytes): -> (sig | None, detail).  The strict pcapng reader and frame parser already ran
    (lib/netio.read_output): SHB first, byte-order magic, block lengths 4-aligned and mirrored, IDB before EPBs, Ethernet linktype,
    caplen <= origlen, Ethernet II + IPv4 (IHL, total length, header checksum) / IPv6 (payload length) + TCP (data offset, checksum over
    pseudo header) / UDP (length, checksum)."""
    sig = oracle.base_failure(o)
    if sig:
        return sig, (o.run.exc or o.bad or "")[-300:]
    for key, pk in o.flows.items():
        if key[0] == 6:
            try:
                oracle.tcp_streams(pk)
            except oracle.BadOutput as e:
                return "tcp conversation not reassemblable: " + str(e).split(":")[0][:50], str(e)
    return None, ""


def evaluate_grid(spec):
    """one application record of n plaintext bytes whose ciphertext is carried by exactly k input segments"""
    n, k, code, ver, srv = spec["n"], spec["k"], spec["suite"], spec["version"], spec["srv"]
    late = spec.get("late", 0)
    hist = [[1 - srv, 7, 0], [srv, n, 0], [1 - srv, 3, 0]] if not late else [[1 - srv, 7, 0], [srv, n, 0], [srv, 33, 0], [srv, 21, 0], [1 - srv, 3, 0]]
    cs = {"kind": "tls", "seed": 50 + n * 13 + k, "version": ver, "suite": code, "history": hist,
          "ep": scenario.default_ep(k, v6=bool(spec.get("v6"))), "cert_len": 30}
    conn = tlsref.TlsConn(cs, tlsref.load_suites())
    spans = [s for s in scenario.record_spans(conn) if s[3] == "APP" and s[0] == bool(srv)]
    _, a, e, _, _ = spans[0]
    L = e - a
    cuts = sorted({a + (j * L) // k for j in range(1, k)} | {a, e})
    rec_cuts = {x[2] for x in scenario.record_spans(conn) if x[0] == bool(srv)}
    cs["tcp"] = {"mode": "abs", "cuts": [[], []], "syn": bool(k % 2)}
    cs["tcp"]["cuts"][int(bool(srv))] = sorted(set(cuts) | rec_cuts)
    cs["tcp"]["cuts"][int(not srv)] = sorted({x[2] for x in scenario.record_spans(conn) if x[0] != bool(srv)})
    sc = {"conns": [cs], "tseed": 3}
    b = scenario.build(sc)
    if late:
        # the LAST segment of the record is captured `late` places later: the records behind it (one segment each) are buffered when it
        # arrives, all record boundaries inside that buffer lie on segment boundaries
        mine = [i for i, s_ in enumerate(b.segs[0]) if s_["srv"] == bool(srv) and s_["off"] < e and s_["off"] + len(s_["data"]) > a]
        cs["tcp"]["moves"] = [[mine[-1], late]]
        b = scenario.build(sc)
    carrying = sum(1 for s_ in b.segs[0] if s_["srv"] == bool(srv) and s_["off"] < e and s_["off"] + len(s_["data"]) > a)
    o = oracle.run_e2e(b, engine.workdir())
    sig, detail = validity(o)
    if sig is None:
        key, c, s = oracle.ep_key(cs["ep"], 6)
        pk = o.flows.get(key)
        if not pk:
            sig, detail = "grid: connection not exported", ""
        else:
            stt = oracle.tcp_streams(pk)
            me = stt["server"] if srv else stt["client"]
            # segments of the sender; the n-byte record occupies stream offsets [0, n) of its direction (first record of that direction)
            segs = [(off, p) for (d, off, p) in stt["segs"] if d == bool(srv) and off < n]
            data = b"".join(p.payload for _, p in segs)
            allsegs = [p for p in pk[3:] if (p.sip, p.sport) == me and (p.flags & 0x08)]
            want = b.conns[0].truth_records[1][1]
            mine = [p for p in allsegs][:max(1, carrying)]
            if stt[bool(srv)][:n] != want:
                sig, detail = "grid: record bytes wrong", f"n={n} k={carrying}"
            elif len(segs) > max(carrying, 1):
                sig, detail = "grid: record re-split into more segments than input packets carried it", f"n={n} k={carrying} segments={len(segs)}"
            elif n and any(off + len(p.payload) > n for off, p in segs):
                sig, detail = "grid: a segment mixes two records", f"n={n} k={carrying}"
    return {"sig": sig, "detail": detail + f" spec={spec}", "nontrivial": carrying >= 2, "labels": ["grid", "last-segment-late" if late else "in-order", "k=%d" % min(carrying, 12), "n:%s" % ("0" if n == 0 else "<k" if n < k else ">=k")],
            "key": f"{n}/{carrying}/{code}/{ver}/{srv}/{late}"}


def grid_specs(tier):
    out = []
    kinds = [(0x002F, tlsref.TLS10), (0x0005, tlsref.TLS12), (0xC02F, tlsref.TLS12), (0x1301, tlsref.TLS13), (0x003C, tlsref.TLS12)]
    ns = list(range(0, 41)) + [255, 256, 1400, 16384]
    i = 0
    for n in ns:
        for k in range(1, min(n + 5, 12) + 1):
            sets = kinds if tier != "quick" else [kinds[i % len(kinds)]]
            for code, ver in sets:
                out.append({"n": n, "k": k, "suite": code, "version": ver, "srv": (i // 2) % 2, "v6": i % 3 == 0})
            i += 1
    # ... and with the record's last segment overtaken by the one or two records that follow it
    for n in (1, 7, 40, 256, 1400):
        for k in (1, 2, 3, 4):
            for late in (1, 2):
                code, ver = kinds[i % len(kinds)]
                out.append({"n": n, "k": k, "suite": code, "version": ver, "srv": i % 2, "v6": i % 3 == 0, "late": late})
                i += 1
    return out


def evaluate_any(spec):
    b = scenario.build(spec)
    keylog = [ln for i, ln in enumerate(b.keylog) if i not in set(spec.get("drop_keys", []))] if spec.get("drop_keys") else b.keylog
    saved = b.keylog
    b.keylog = keylog
    try:
        o = oracle.run_e2e(b, engine.workdir(), opts=spec.get("opts"))
    finally:
        b.keylog = saved
    sig, detail = validity(o)
    kinds = sorted({c["kind"] + (":" + c.get("what", "") if c["kind"] == "noise" else "") for c in spec["conns"]})
    opts = spec.get("opts") or {}
    labels = ["any", "opts:" + "".join(k for k in ("a", "c", "g", "d", "f") if opts.get(k)) + ("m" if opts.get("m") is not None else "") + ("p" if opts.get("p") else "")]
    labels += ["has:" + k for k in kinds]
    if any(c.get("hrr") for c in spec["conns"]):
        labels.append("has:hello-retry-request")
    if spec.get("drop_keys"):
        labels.append("keys-missing")
    labels.append("times:" + (spec.get("times") or "epoch"))
    foreign = any(c["kind"] == "noise" for c in spec["conns"]) or bool(spec.get("drop_keys"))
    return {"sig": sig, "detail": detail, "nontrivial": bool(o.pkts) and foreign, "labels": labels}


@st.composite
def any_spec(draw):
    n = draw(st.integers(0, 4))
    conns = []
    for i in range(n):
        k = draw(st.sampled_from(["tls", "tls", "quic", "noise", "noise"]))
        sport = draw(st.sampled_from([443, 443, 44330, 8443]))
        ep = strategies.endpoints(idx=i, sports=(sport,))
        if k == "tls":
            c = draw(strategies.tls_conn(max_records=6, max_len=600, ep=ep, delivery=strategies.tcp_delivery(dups=True), bytes_mode_limit=600))
            if c["version"] == 0x0304 and draw(st.integers(0, 2)) == 0:
                c["hrr"] = draw(st.integers(1, 2))      # what is exported after a HelloRetryRequest is not claimed, that the output is valid is
            elif c["version"] != 0x0304 and draw(st.integers(0, 4)) == 0:
                c["sh_comp"] = True                     # likewise for a connection that negotiates DEFLATE
        elif k == "quic":
            c = draw(strategies.quic_conn(max_steps=6, ep=ep))
        else:
            c = {"kind": "noise", "what": draw(st.sampled_from(["http", "tcp_other", "dns", "udp_rand", "udp_quicish", "udp_struct", "arp"])),
                 "seed": draw(st.integers(0, 1 << 30)), "n": draw(st.integers(1, 6)), "ep": draw(ep)}
        c["seed"] = c.get("seed", 0) * 8 + i
        conns.append(c)
    opts = {"a": draw(st.booleans()), "c": draw(st.booleans())}
    if draw(st.booleans()):
        opts["p"] = draw(st.lists(st.sampled_from([8443, 4433, 80]), min_size=1, max_size=2))
    mk = draw(st.sampled_from([None, None, [], ["443:8081"], ["443:8081,", "8443:8088"], "cport"]))
    if mk == "cport":
        # the mapped port is the client port of a connection of the capture: both ends of that exported conversation use one port number
        tgt = [c["ep"]["cport"] for c in conns if c["kind"] in ("tls", "quic")]
        mk = ["%d:%d" % (sp, tgt[0]) for sp in (443, 44330, 8443)] if tgt else None
    opts["m"] = mk
    # the remaining switches: RFC 9287 greased fixed bit, log level, log filter
    opts["g"] = draw(st.sampled_from([False, False, True]))
    opts["d"] = draw(st.sampled_from([None, None, "DEBUG", "INFO", "WARNING", "bare", "nonsense"]))
    if draw(st.integers(0, 4)) == 0:
        opts["f"] = draw(st.lists(st.sampled_from(["session.py", "main.py", "quic_session.py", "x"]), min_size=1, max_size=2))
    sc = {"conns": conns, "order": draw(st.lists(st.integers(0, 5), min_size=1, max_size=8)), "tseed": draw(st.integers(1, 500)), "opts": opts}
    # captures on several interfaces, the first of which may be a non-Ethernet one without packets (the output is Ethernet whatever the input's first interface is)
    cont = draw(st.sampled_from([None, None, None, {"idle_first": 0}, {"idle_first": 113}, {"ifaces": 2}, {"ifaces": 3, "late_idb": True, "idle_first": 0}]))
    if cont:
        sc["container"] = cont
    if draw(st.integers(0, 3)) == 0:
        sc["drop_keys"] = draw(st.lists(st.integers(0, 12), min_size=1, max_size=6))
    # capture times: epoch values, relative times starting at exactly 0, stripped times (all 0), or file order that is not time order
    if draw(st.integers(0, 3)) == 0:
        sc["stale_out"] = draw(st.sampled_from([100, 40000, 400000]))      # something is already at the output path
    tm = draw(st.sampled_from([None, None, None, None, "zero", "zero_all", "disorder", "long_gaps"]))
    if tm:
        sc["times"] = tm
    return sc


def repo_capture_specs():
    """every capture shipped with the repository (real TLS and QUIC stacks) with every key log of its directory, with and without -a"""
    import os
    import runner
    out = []
    root = os.path.join(runner.REPO, "tlexport", "pcaps_und_keylogs")
    if os.path.isdir(root):
        for sub in sorted(os.listdir(root)):
            d = os.path.join(root, sub)
            if not os.path.isdir(d):
                continue
            logs = [f for f in sorted(os.listdir(d)) if f.endswith((".log", ".txt"))]
            for fn in sorted(os.listdir(d)):
                if fn.endswith(".pcapng"):
                    for lg in logs[:3]:
                        for a in (False, True):
                            out.append({"file": os.path.join("tlexport/pcaps_und_keylogs", sub, fn), "log": os.path.join("tlexport/pcaps_und_keylogs", sub, lg), "a": a})
    return out


def evaluate_repo_capture(spec):
    import os
    import netio
    import runner
    wd = engine.workdir()
    outp = os.path.join(wd, "repo.out.pcapng")
    if os.path.exists(outp):
        os.unlink(outp)
    argv = ["-i", os.path.join(runner.REPO, spec["file"]), "-s", os.path.join(runner.REPO, spec["log"]), "-o", outp, "-p", "443", "44330", "5556", "4433"]
    if spec["a"]:
        argv.append("-a")
    o = oracle.Outcome()
    o.run = runner.run_inproc(argv)
    o.pkts = o.bad = o.flows = None
    o.outpath, o.size = outp, None
    if os.path.exists(outp):
        try:
            o.pkts = netio.read_output(outp)
            o.flows = oracle.flows(o.pkts)
        except oracle.BadOutput as e:
            o.bad = str(e)
    sig, detail = validity(o)
    return {"sig": ("repository capture: " + sig) if sig else None, "detail": f"{spec}: {detail}", "nontrivial": bool(o.pkts),
            "labels": ["repo-capture", "quic" if "quic" in spec["file"] else "tls"], "key": engine.spec_hash(spec)}


def evaluate_long_flow(spec):
    """component level: the TLS output builder fed with a very long record list (more than 2^28 bytes in one direction); sequence and
    acknowledgement numbers are read from the scapy objects (nothing is serialised) and must continue gap-free all the way"""
    from scapy.layers.inet import TCP
    from scapy.packet import Raw
    from tlexport.output_builder import OutputBuilder

    class P:
        def __init__(self, ts):
            self.timestamp = ts

    class R:
        def __init__(self, ts, k):
            self.metadata = [P(ts + j * 1e-6) for j in range(k)]
    big = bytes(spec["size"])
    recs = []
    for i in range(spec["n"]):
        srv = (i % spec["every"] != 0) == bool(spec["mostly_server"])
        recs.append((big if i % 97 else big[:spec["size"] // 3 + i % 5], R(1.7e9 + i * 1e-3, 1 if i % 50 else 3), srv))
    v6 = spec["v6"]
    ob = OutputBuilder(recs, "2001:db8::1" if v6 else "192.168.1.1", "2001:db8::2" if v6 else "10.0.0.1", 443, 40000, b"\x02" * 6, b"\x04" * 6, {}, v6, True)
    out = ob.build()
    nxt = {True: 1, False: 1}
    total = {True: 0, False: 0}
    for n, (pkt, ts) in enumerate(out[3:]):
        t = pkt[TCP]
        srv = t.sport == 443
        ln = len(pkt[Raw].load) if Raw in pkt else 0
        if t.seq != nxt[srv] & 0xFFFFFFFF:
            return {"sig": "long flow: sequence number does not continue the stream", "detail": f"packet {n}: seq {t.seq}, expected {nxt[srv] & 0xFFFFFFFF} after "
                    f"{total[srv]} bytes ({'server' if srv else 'client'}, {'IPv6' if v6 else 'IPv4'})", "nontrivial": True}
        if t.ack != nxt[not srv] & 0xFFFFFFFF:
            return {"sig": "long flow: acknowledgement number inconsistent", "detail": f"packet {n}: ack {t.ack}, expected {nxt[not srv] & 0xFFFFFFFF}", "nontrivial": True}
        nxt[srv] += ln
        total[srv] += ln
    want = {True: sum(len(r[0]) for r in recs if r[2]), False: sum(len(r[0]) for r in recs if not r[2])}
    if total != want:
        return {"sig": "long flow: bytes lost or duplicated", "detail": f"{total} vs {want}", "nontrivial": True}
    return {"sig": None, "nontrivial": max(total.values()) > (1 << 28), "labels": ["long-flow", "v6" if v6 else "v4", ">2^28" if max(total.values()) > (1 << 28) else "<=2^28"],
            "key": engine.spec_hash(spec)}


def long_flow_specs(tier):
    out = [{"n": 17200, "size": 16384, "every": 50, "mostly_server": 1, "v6": False}, {"n": 17200, "size": 16384, "every": 40, "mostly_server": 0, "v6": True}]
    if tier != "quick":
        out += [{"n": 34000, "size": 16384, "every": 2, "mostly_server": 1, "v6": False}, {"n": 60000, "size": 16384, "every": 90, "mostly_server": 1, "v6": True}]
    return out


def stages(tier):
    quick = tier == "quick"
    return [
        Stage("repo-captures", evaluate_repo_capture, specs=repo_capture_specs()),
        Stage("long-flow", evaluate_long_flow, specs=long_flow_specs(tier), chunksize=1),
        Stage("split-grid", evaluate_grid, specs=grid_specs(tier)),
        Stage("any-capture", evaluate_any, strategy=lambda t: any_spec(), examples=1200 if quick else 30000),
    ]


RULE = ("validity predicate only (no expected bytes); stage long-flow feeds the TLS output builder with > 2^28 bytes per direction (component level, "
        "sequence / acknowledgement numbers read from the packet objects); stage repo-captures applies it to every real TLS / QUIC capture shipped with the repository; "
        "predicate: strict pcapng reader, strict Ethernet/IPv4/IPv6/TCP/UDP frame parser with length and checksum "
        "verification, strict TCP reassembler (SYN, SYN/ACK, ACK, then gap-free non-overlapping sequence space with consistent ACKs); stage "
        "split-grid enumerates (record length n = 0..40, 255, 256, 1400, 16384) x (number k = 1..min(n+5,12) of input segments carrying the record) "
        "and additionally demands <= k segments whose concatenation is the record; stage any-capture draws captures of 0-4 flows (TLS, QUIC, plain "
        "HTTP / other TCP on watched ports, DNS / random / QUIC-shaped UDP, ARP; keys missing for some) x options (-a, -c, -p, -m forms, -g, -d levels, -f).  "
        "Non-trivial: k >= 2 (grid); non-empty output and a foreign or undecryptable flow present (any-capture)")
ASSUMPTIONS = ["the validity predicate itself (lib/netio.py strict reader/parser, lib/oracle.tcp_streams) is the trusted base",
               "zero-length data segments are accepted as segments"]

CHECK = Check(PID, "exploration", RULE, ASSUMPTIONS, stages)
