"""C01 - TLS-over-TCP application data is exported exactly (all versions, all suites)."""
import engine
import oracle
import scenario
import strategies
import tlsref
from engine import Stage, Check

PID = "C01"


def evaluate(spec):
    b = scenario.build(spec)
    o = oracle.run_e2e(b, engine.workdir())
    cs = spec["conns"][0]
    conn = b.conns[0]
    ep = cs.get("ep") or scenario.default_ep(0)
    sig = oracle.base_failure(o)
    detail = (o.run.exc or "")[-400:] if sig else ""
    if sig is None:
        sig, detail = oracle.tls_flow_check(o, conn, ep)
        if sig is None:
            extra = [k for k in o.flows if k != oracle.ep_key(ep, 6)[0]]
            if extra:
                sig, detail = "tls:extra-flow", str(extra[:2])
    hist = [h for h in cs.get("history", []) if h[0] != 2]
    per_dir = [sum(1 for h in hist if h[0] == d) for d in (0, 1)]
    s = conn.s
    t = cs.get("tcp") or {}
    labels = [tlsref.VERSION_NAMES[conn.v], "kind:" + s.kind + ("+etm" if conn.etm else ""), "alg:" + s.alg, "seg:" + t.get("mode", "rec"),
              "v6" if ep["v6"] else "v4", "hist:%s" % ("0" if not hist else "1" if len(hist) == 1 else "2-5" if len(hist) <= 5 else "6+")]
    if cs.get("hs_frag") or cs.get("hs_cuts"):
        labels.append("hs-flight-fragmented")
    if cs.get("abbreviated"):
        labels.append("abbreviated")
    if conn.v == tlsref.TLS13:
        labels.append("hs_secrets" if cs.get("hs_secrets", True) else "no_hs_secrets")
        if cs.get("pad13") or any(h[2] for h in hist):
            labels.append("pad13")
    if any(h[1] >= 16383 for h in hist):
        labels.append("len>=16383")
    if any(h[1] == 0 for h in hist):
        labels.append("len0")
    key = "%04x/%04x/%d/%s" % (conn.v, s.code, conn.etm, engine.spec_hash({k: v for k, v in cs.items() if k != "seed"}))
    return {"sig": sig, "detail": detail, "nontrivial": max(per_dir) >= 2, "key": key, "labels": labels}


def evaluate_resumed(spec):
    """a session and its resumption in one capture: a full handshake and an abbreviated one with the SAME master secret and their own
    randoms (TLS <= 1.2 keys depend on master secret and both randoms) - both connections are exported exactly"""
    b = scenario.build(spec)
    o = oracle.run_e2e(b, engine.workdir())
    sig = oracle.base_failure(o)
    detail = (o.run.exc or "")[-400:] if sig else ""
    if sig is None:
        for ci, cs in enumerate(spec["conns"]):
            s0, d0 = oracle.tls_flow_check(o, b.conns[ci], cs["ep"])
            if s0:
                sig, detail = ("resumed connection: " if cs.get("abbreviated") else "original connection of a resumed session: ") + s0, d0
                break
    conn = b.conns[0]
    return {"sig": sig, "detail": detail, "nontrivial": True, "key": "res%04x/%04x/%s" % (conn.v, conn.s.code, spec["tseed"]),
            "labels": ["resumption-pair", tlsref.VERSION_NAMES[conn.v], "kind:" + conn.s.kind]}


def resumed_specs():
    out = []
    picks = [(0x002F, tlsref.TLS12), (0xC02F, tlsref.TLS12), (0x003D, tlsref.TLS12), (0x0005, tlsref.TLS12), (0xCCA8, tlsref.TLS12), (0x0035, tlsref.TLS11), (0x000A, tlsref.TLS10),
              (0x0004, tlsref.SSL30), (0xC0AC, tlsref.TLS12)]
    i = 0
    for code, ver in picks:
        for order in ([0, 1], [0] * 30 + [1] * 30, [1] * 30 + [0] * 30):
            a = {"kind": "tls", "seed": 4400 + 2 * i, "version": ver, "suite": code, "share_master": 700 + i, "history": [[0, 40, 0], [1, 300, 0], [0, 12, 0], [1, 9, 0]],
                 "ep": scenario.default_ep(2 * (i % 40)), "tcp": {"mode": "rec", "syn": True, "acks": False, "mss": 1400, "isn_c": 11, "isn_s": 77}}
            r = dict(a, seed=4401 + 2 * i, abbreviated=True, sid_len=32, tickets=i % 2 if ver != tlsref.SSL30 else 0, history=[[0, 33, 0], [1, 250, 0], [1, 7, 0], [0, 5, 0]],
                     ep=scenario.default_ep(2 * (i % 40) + 1))
            out.append({"conns": [a, r], "order": order, "tseed": 1 + i})
            i += 1
    return out


def sweep_specs(variant=0):
    """the complete (suite, version, EtM) sweep with a short two-direction history that carries cipher state"""
    out = []
    for i, (code, ver, etm) in enumerate(tlsref.all_combos()):
        hist = [[0, 37, 0], [1, 300, 0], [0, 16, 1], [1, 0, 0], [1, 95, 0], [0, 1, 0]]
        spec = {"kind": "tls", "seed": 1000 * variant + i, "version": ver, "suite": code, "etm": etm, "history": hist,
                "ep": scenario.default_ep(i % 200, v6=bool((i + variant) % 2)), "sh13_exts": (i + variant) % 5}
        if variant:
            spec.update(grouping=(variant * 5 + i) % 16, sid_len=[0, 32, 7][(i + variant) % 3], abbreviated=bool((i + variant) % 3 == 0) and ver != tlsref.TLS13,
                        tcp={"mode": ["flight", "cuts", "rec"][(i + variant) % 3], "cuts": [[3 + variant, 70 * variant, 500], [9, 41 * variant]], "mss": 1400,
                             "isn_c": (0xFFFFFF00 + i) if variant % 2 == 0 else 77 + i, "isn_s": 12345},
                        hs_secrets=bool((i + variant) % 2))
        out.append({"conns": [spec], "tseed": variant})
    return out


def sh_follow_specs():
    """ServerHello WITHOUT extension block followed by another handshake message in the same record, every length of
    that message 0..70 (its 3-byte length field is what a parser running past the ServerHello would read as extensions)"""
    out = []
    combos = [(0x002F, tlsref.TLS10), (0x000A, tlsref.TLS11), (0x003C, tlsref.TLS12), (0x0005, tlsref.TLS10), (0x009C, tlsref.TLS12)]
    for n in range(0, 71):
        code, ver = combos[n % len(combos)]
        out.append({"conns": [{"kind": "tls", "seed": 7000 + n, "version": ver, "suite": code, "sh_ext": "none", "after_sh": n,
                               "history": [[0, 33, 0], [1, 120, 0], [0, 5, 0], [1, 64, 0]]}], "tseed": 1})
    return out


LOREM = (b"Lorem ipsum dolor sit amet, consetetur sadipscing elitr, sed diam nonumy eirmod tempor invidunt ut labore et dolore magna aliquyam "
         b"erat, sed diam voluptua.")


def sample_specs():
    """the captures of real TLS stacks shipped with the repository (test/testfiles, test/incomplete_pcaps) - an anchor that is independent
    of the reference encoder: the repository's own end-to-end test expects the 'Lorem ipsum' text in their plaintext"""
    import os
    import runner
    out = []
    for sub, complete in (("test/testfiles", True), ("test/incomplete_pcaps", False)):
        d = os.path.join(runner.REPO, sub)
        if os.path.isdir(d):
            for fn in sorted(os.listdir(d)):
                if fn.endswith((".pcapng", ".pcap")):
                    out.append({"file": os.path.join(sub, fn), "complete": complete})
    return out


def evaluate_sample(spec):
    import os
    import netio
    import runner
    wd = engine.workdir()
    outp = os.path.join(wd, "sample.out.pcapng")
    if os.path.exists(outp):
        os.unlink(outp)
    argv = ["-i", os.path.join(runner.REPO, spec["file"]), "-s", os.path.join(runner.REPO, "test/keylog.log"), "-o", outp, "-p", "443", "44330", "5556"]
    if spec["file"].endswith(".pcap"):
        argv.append("-l")
    r = runner.run_inproc(argv)
    if r.exc or r.code:
        return {"sig": "sample capture: abort " + str(r.exc_sig or r.code), "detail": spec["file"] + (r.exc or "")[-300:], "nontrivial": True}
    try:
        pkts = netio.read_output(outp)
        streams = []
        for key, pk in oracle.flows(pkts).items():
            if key[0] == 6:
                stt = oracle.tcp_streams(pk)
                streams += [stt[False], stt[True]]
    except oracle.BadOutput as e:
        return {"sig": "sample capture: malformed output", "detail": f"{spec['file']}: {e}", "nontrivial": True}
    want = LOREM if spec["complete"] else b"Lorem\n"
    sig = None
    if not any(want in st_ for st_ in streams):
        sig = "sample capture: the expected plaintext is not exported"
    return {"sig": sig, "detail": spec["file"], "nontrivial": True, "labels": ["repo-sample"], "key": spec["file"]}


def stages(tier):
    quick = tier == "quick"
    st = [Stage("repo-samples", evaluate_sample, specs=sample_specs()), Stage("sweep", evaluate, specs=sweep_specs(0)),
          Stage("sh-follow", evaluate, specs=sh_follow_specs()), Stage("resumed-session-pairs", evaluate_resumed, specs=resumed_specs())]
    if not quick:
        for v in range(1, 8):
            st.append(Stage(f"sweep-v{v}", evaluate, specs=sweep_specs(v)))
    st.append(Stage("deep", evaluate, strategy=lambda t: strategies.single_tls_scenario(max_records=12 if t == "quick" else 40,
                                                                                         max_len=2000 if t == "quick" else 16384),
                    examples=800 if quick else 40000))
    st.append(Stage("long-records", evaluate,
                    strategy=lambda t: strategies.single_tls_scenario(max_records=4, max_len=16384,
                                                                      delivery=strategies.tcp_delivery(modes=("rec", "flight", "cuts"))),
                    examples=100 if quick else 4000))
    return st


RULE = ("stage repo-samples: the repository's own captures of real TLS stacks must export the 'Lorem ipsum' text its end-to-end test expects "
        "(anchor independent of the reference encoder); stage resumed-session-pairs: a full handshake and its resumption (same master secret, own randoms) in one capture, 9 suite/version classes x 3 interleavings; then: one TLS connection per case, generated from (suite x valid version x EtM) x handshake shape x record history x TCP "
        "segmentation x endpoints; stage 'sweep' enumerates ALL table combinations; a case is non-trivial when the handshake "
        "completes and at least one direction carries >= 2 application records (cipher state carried across records); distinct "
        "= distinct (version, suite, EtM, spec-without-seed hash)")
ASSUMPTIONS = ["cryptography's primitive ciphers are correct (shared trusted base)",
               "ClientHello and ServerHello start a record and lie inside it; the rest of the server's flight may be fragmented across records (hs_frag 512..16384) - the client's flight is not",
               "captures are causal: during the handshake no TCP segment spans a change of direction",
               "not claimed by the property and not generated: compression, renegotiation, TLS 1.3 KeyUpdate/0-RTT/HRR, data after alert, 4-tuple reuse"]

CHECK = Check(PID, "exploration", RULE, ASSUMPTIONS, stages)
