"""C12 - the export does not depend on the capture container."""
import hashlib
from fractions import Fraction

from hypothesis import strategies as st

import engine
import oracle
import runner  # noqa: F401
import scenario
import strategies
from engine import Stage, Check

PID = "C12"
T0 = 1_700_000_000


def unit_of(cont):
    if cont["fmt"] == "pcap":
        return Fraction(1, 10 ** 9) if cont.get("nano") else Fraction(1, 10 ** 6)
    r = cont.get("tsresol", 6)
    return Fraction(1, 1 << (r & 0x7F)) if r & 0x80 else Fraction(1, 10 ** r)


def evaluate(spec):
    cont = spec["cont"]
    b = scenario.build_conns(spec)
    pkts = scenario.merge_packets(b.per_conn, spec.get("order"))
    u = unit_of(cont)
    # exact capture times: multiples of the variant's unit, strictly increasing
    t = Fraction(T0)
    steps = spec["tsteps"]
    exact_us = True
    for i, p in enumerate(pkts):
        # distinct packets are >= 2 us apart (datagrams are told apart by their capture time, also after rounding to us)
        t += u * max(1 + steps[i % len(steps)], -(-Fraction(2, 1_000_000) // u))
        p.ts = t
        if (t * 1_000_000).denominator != 1:
            exact_us = False
    b.pkts = pkts
    wd = engine.workdir()
    # reference container: pcapng, little endian, microseconds; times floored to microseconds
    ref = [p.copy() for p in pkts]
    for p in ref:
        p.ts = int(p.ts * 1_000_000)
    o0 = oracle.run_e2e(b, wd, pkts=ref, container={"fmt": "pcapng"}, name="ref")
    f0 = oracle.base_failure(o0)
    if f0:
        return {"sig": "reference container: " + f0, "detail": (o0.run.exc or "")[-300:], "nontrivial": False}
    o1 = oracle.run_e2e(b, wd, pkts=pkts, container=cont, keys=cont.get("keys"), name="var")
    f1 = oracle.base_failure(o1)
    dims = (cont["fmt"] != "pcapng") + (cont.get("endian", "<") != "<") + (cont.get("tsresol", 6) != 6) + bool(cont.get("tsoffset")) + bool(cont.get("extra") or cont.get("extra_pre")) + (cont.get("ifaces", 1) > 1 or bool(cont.get("idle_ifaces"))) + bool(cont.get("keys")) + \
        bool(cont.get("nano"))
    r = cont.get("tsresol", 6)
    labels = ["fmt:" + cont["fmt"] + ("-ns" if cont.get("nano") else ""), "endian:" + ("be" if cont.get("endian", "<") == ">" else "le"),
              "tsresol:" + ("2^-%d" % (r & 0x7F) if r & 0x80 else "10^-%d" % r), "tsoffset" if cont.get("tsoffset") else "no-offset",
              "extra-blocks:%d" % len(cont.get("extra") or []), "exact-us" if exact_us else "sub-us",
              "big-block" if any(x[2] > 60000 for x in (cont.get("extra") or [])) else "small-blocks", "snaplen:%d" % cont.get("snaplen", 0),
              "opt-order:" + ("offset,resol" if cont.get("offset_first") else "resol,offset"), "blocks-before-idb:%d" % len(cont.get("extra_pre") or []),
              "interfaces:%d%s" % (cont.get("ifaces", 1), "-late" if cont.get("late_idb") and cont.get("ifaces", 1) > 1 else ""),
              "idle-interfaces:%d" % len(cont.get("idle_ifaces") or []), "first-interface:" + ("ethernet" if cont.get("idle_first") is None else "idle-linktype-%d" % cont["idle_first"]),
              "packet-blocks:" + ("-" if not cont.get("packet_blocks") else "every-%d drops-%d" % (cont["packet_blocks"][0], cont["packet_blocks"][2])),
              "section-length:" + ("stated" if cont.get("section_length") else "-1"),
              "keys:" + ("file" if not cont.get("keys") else "dsb-only" if not cont["keys"].get("file") else "file+dsb")]
    nontrivial = dims >= 2 and bool(o0.pkts)
    if f1:
        return {"sig": f"variant container ({labels[0]}, {labels[2]}): " + f1, "detail": (o1.run.exc or "")[-300:], "nontrivial": nontrivial, "labels": labels}
    sig, detail = None, ""
    if len(o0.pkts) != len(o1.pkts):
        sig, detail = "container changes the number of exported packets", f"{len(o1.pkts)} instead of {len(o0.pkts)} ({labels})"
    else:
        for i, (a, c) in enumerate(zip(o0.pkts, o1.pkts)):
            ka = (a.smac, a.dmac, a.sip, a.dip, a.sport, a.dport, a.seq, a.ack, a.flags, a.payload)
            kc = (c.smac, c.dmac, c.sip, c.dip, c.sport, c.dport, c.seq, c.ack, c.flags, c.payload)
            if ka != kc:
                sig, detail = "container changes exported packet contents", f"packet {i} ({labels})"
                break
            if a.ts != c.ts and (exact_us or abs(a.ts - c.ts) > 1):
                sig = "container changes exported timestamps" + (" (exact microsecond times)" if exact_us else " (by more than 1 us)")
                detail = f"packet {i}: {c.ts} vs reference {a.ts} ({labels})"
                break
        if sig is None and exact_us:
            with open(o0.outpath, "rb") as f0_, open(o1.outpath, "rb") as f1_:
                if hashlib.sha256(f0_.read()).digest() != hashlib.sha256(f1_.read()).digest():
                    sig, detail = "output file differs although packets and times are equal", str(labels)
    return {"sig": sig, "detail": detail, "nontrivial": nontrivial, "labels": labels, "evals": 2}


def evaluate_pair(spec):
    """the SAME packet times with sub-microsecond parts (multiples of 1 ns, or of 2^-k s for k <= 9) in two containers that can both
    represent them exactly - nanosecond legacy pcap and pcapng with a fine if_tsresol: the exports must be identical (no +-1 us allowance:
    whatever rounding rule is used, it must not depend on the container)"""
    b = scenario.build_conns(spec)
    pkts = scenario.merge_packets(b.per_conn, spec.get("order"))
    k = spec["bin"]
    u = Fraction(1, 1 << k) if k else Fraction(1, 10 ** 9)
    t = Fraction(T0)
    steps = spec["tsteps"]
    # "tight": consecutive packets 250 ns .. 1 us apart (distinct capture times - a double resolves 238 ns at present-day epochs - that
    # fall into the same microsecond): no ground truth is used here, only that both containers, holding the same times, export alike
    tight = bool(spec.get("tight")) and not k
    for i, p in enumerate(pkts):
        t += u * max(1 + steps[i % len(steps)], 250 if tight else -(-Fraction(2, 1_000_000) // u))
        p.ts = t
    if spec.get("anchor") and not k and pkts:
        # the whole capture is shifted so that packet j is captured d nanoseconds before a full second (tick counts of nanosecond
        # captures exceed 2^53: the last ~128 ns of a second are where a float conversion rounds up to the next second)
        j, d = spec["anchor"]
        pj = pkts[j % len(pkts)]
        shift = (pj.ts.__ceil__() - Fraction(d, 10 ** 9)) - pj.ts
        for p in pkts:
            p.ts += shift
    b.pkts = pkts
    wd = engine.workdir()
    conts = [{"fmt": "pcap", "endian": spec["endians"][0], "nano": True},
             {"fmt": "pcapng", "endian": spec["endians"][1], "tsresol": 9, "tsoffset": spec["offset"], "offset_first": spec["offset_first"], "extra": spec["extra"]}]
    if k:
        conts.append({"fmt": "pcapng", "endian": spec["endians"][0], "tsresol": 0x80 | k, "tsoffset": 0, "extra": []})
    outs = []
    for ci, c in enumerate(conts):
        o = oracle.run_e2e(b, wd, pkts=pkts, container=c, name="pair%d" % ci)
        f = oracle.base_failure(o)
        if f:
            return {"sig": f"pair variant ({c['fmt']}): " + f, "detail": (o.run.exc or "")[-300:], "nontrivial": True, "evals": ci + 1}
        outs.append([(p.ts, p.sip, p.dip, p.sport, p.dport, p.seq, p.ack, p.flags, p.payload) for p in o.pkts])
    sig, detail = None, ""
    for ci in range(1, len(outs)):
        if outs[ci] != outs[0]:
            d = next((i for i, (x, y) in enumerate(zip(outs[0], outs[ci])) if x != y), None)
            what = "timestamps" if d is not None and outs[0][d][1:] == outs[ci][d][1:] else "packets"
            sig = f"same sub-microsecond packet times export different {what} from nanosecond pcap and fine-resolution pcapng"
            detail = f"container {conts[ci]} vs nanosecond pcap: packet {d}: {outs[ci][d][0] if d is not None else '-'} vs {outs[0][d][0] if d is not None else '-'}"
            break
    half = any((Fraction(p.ts) * 1_000_000) % 1 >= Fraction(1, 2) for p in pkts)
    return {"sig": sig, "detail": detail, "nontrivial": bool(outs[0]) and half, "labels": ["pair", "bin:%d" % k, "half-us" if half else "below-half", "tight-spacing" if tight else "spacing>=2us",
                                                                                  "end-of-second" if spec.get("anchor") and not k else "anywhere-in-the-second"], "evals": len(conts)}


@st.composite
def pair_spec(draw):
    sc = draw(spec_strategy())
    sc.pop("cont", None)
    sc["bin"] = draw(st.sampled_from([0, 0, 0, 3, 7, 9]))
    sc["endians"] = [draw(st.sampled_from(["<", ">"])), draw(st.sampled_from(["<", ">"]))]
    sc["offset"] = draw(st.sampled_from([0, 0, 3600, -5]))
    sc["offset_first"] = draw(st.booleans())
    sc["extra"] = [[draw(st.integers(0, 30)), draw(st.sampled_from([4, 5, 0x00000BAD])), 4 * draw(st.integers(0, 10))] for _ in range(draw(st.integers(0, 2)))]
    sc["tsteps"] = draw(st.lists(st.one_of(st.integers(0, 999), st.integers(0, 5_000_000)), min_size=1, max_size=8))
    sc["anchor"] = draw(st.one_of(st.none(), st.none(), st.tuples(st.integers(0, 40), st.sampled_from([1, 2, 50, 100, 127, 128, 129, 200, 255, 256, 511, 999])).map(list)))
    sc["tight"] = draw(st.booleans())
    if sc["tight"]:
        sc["tsteps"] = draw(st.lists(st.integers(0, 700), min_size=1, max_size=8))
    return sc


@st.composite
def container(draw):
    fmt = draw(st.sampled_from(["pcapng", "pcapng", "pcapng", "pcap"]))
    c = {"fmt": fmt, "endian": draw(st.sampled_from(["<", ">"]))}
    if fmt == "pcap":
        c["nano"] = draw(st.booleans())
        return c
    c["tsresol"] = draw(st.one_of(st.integers(0, 9), st.integers(1, 30).map(lambda k: 0x80 | k), st.just(6)))
    c["tsoffset"] = draw(st.sampled_from([0, 0, 1, 3600, 1_600_000_000, -5]))
    c["snaplen"] = draw(st.sampled_from([0, 0, 2000, 65535, 262144]))      # capture limit announced by the interface (>= every packet here)
    c["offset_first"] = draw(st.booleans())          # order of the if_tsresol / if_tsoffset options inside the IDB
    n = draw(st.integers(0, 4))
    # unrelated blocks of any size: a name-resolution or custom block may be far larger than any packet
    c["extra"] = [[draw(st.integers(0, 50)), draw(st.sampled_from([4, 5, 0x00000BAD, 0x40000BAD, 0x7777, 0x0000000B])),
                   4 * draw(st.one_of(st.integers(0, 12), st.integers(0, 12), st.sampled_from([400, 16500, 17000, 45000, 90000])))]
                  for _ in range(n)]
    # the secrets may travel inside the container (decryption secrets block, in the section's byte order) instead of the -s file
    c["keys"] = draw(st.sampled_from([None, None, {"file": False, "dsb": [None], "dsb_pos": "first"}, {"file": False, "dsb": [None], "dsb_pos": "before_idb"},
                                      {"file": True, "dsb": [None], "dsb_pos": "first"}]))
    # a capture on several interfaces (same time parameters): packets are spread over them; later interfaces may be described late
    c["ifaces"] = draw(st.sampled_from([1, 1, 1, 2, 3]))
    c["late_idb"] = draw(st.booleans())
    # the first interface of the file may be one without packets and of another link type (0 = BSD loopback, 113 = Linux cooked)
    c["idle_first"] = draw(st.sampled_from([None, None, None, 0, 113]))
    c["section_length"] = draw(st.booleans())      # Section Length of the SHB: the real number of bytes, or -1
    # some or all packets in obsolete Packet Blocks (type 2) [every m-th, offset r, drops count]
    c["packet_blocks"] = draw(st.sampled_from([None, None, None, [1, 0, 0], [1, 0, 0xFFFF], [2, 1, 7], [3, 0, 0xFFFF]]))
    if c["ifaces"] == 1:
        # ... or further interfaces without packets, each with time parameters of its own
        c["idle_ifaces"] = [[draw(st.integers(0, 40)), draw(st.sampled_from([6, 9, 3, 0, 0x8A])), draw(st.sampled_from([0, 0, 3600]))]
                            for _ in range(draw(st.sampled_from([0, 0, 1, 2])))]
    # ... and some of them before the interface description block (they do not refer to an interface)
    c["extra_pre"] = [[draw(st.sampled_from([4, 0x00000BAD, 0x40000BAD, 0x7777])), 4 * draw(st.one_of(st.integers(0, 12), st.sampled_from([400, 17000])))]
                      for _ in range(draw(st.sampled_from([0, 0, 0, 1, 2])))]
    return c


@st.composite
def spec_strategy(draw):
    n = draw(st.integers(1, 2))
    conns = []
    for i in range(n):
        k = draw(st.sampled_from(["tls", "tls", "quic"]))
        ep = strategies.endpoints(idx=i)
        if k == "tls":
            c = draw(strategies.tls_conn(max_records=4, max_len=300, ep=ep, delivery=strategies.tcp_delivery(modes=("rec", "cuts"), wrap=False)))
        else:
            c = draw(strategies.quic_conn(max_steps=4, ep=ep))
        c["seed"] = c["seed"] * 8 + i
        conns.append(c)
    return {"conns": conns, "order": draw(st.lists(st.integers(0, 3), min_size=1, max_size=6)), "cont": draw(container()),
            "tsteps": draw(st.lists(st.one_of(st.integers(0, 3), st.integers(0, 5000)), min_size=1, max_size=8))}


def stages(tier):
    quick = tier == "quick"
    return [Stage("containers", evaluate, strategy=lambda t: spec_strategy(), examples=500 if quick else 10000),
            Stage("same-times-two-containers", evaluate_pair, strategy=lambda t: pair_spec(), examples=300 if quick else 6000)]


RULE = ("stage same-times-two-containers: the same sub-microsecond packet times in a nanosecond legacy pcap and in pcapng with if_tsresol 9 (and 2^-k) "
        "must export identically; stage containers: one TLS/QUIC scenario written as pcapng-LE-microseconds (reference) and as a drawn variant: pcapng LE/BE x if_tsresol 10^-0..10^-9 / "
        "2^-1..2^-30 x if_tsoffset x NRB / ISB / custom / unknown blocks at drawn positions (NRB / custom / unknown also before the interface description block) x secrets in the -s file or in a decryption secrets block of the container, or legacy pcap LE/BE (micro- and nanosecond magic) with "
        "-l; packet times are exact rationals, multiples of the variant's unit; oracle: same exported packets, same timestamps (exactly when the "
        "times are integer microseconds - then also a byte-identical output file - else within 1 us).  Non-trivial: variant differs from the "
        "reference in >= 2 container dimensions and the export is non-empty")
ASSUMPTIONS = ["present-day capture times (about 1.7e9 s); 1-3 interfaces carrying packets, all with the same if_tsresol / if_tsoffset (the property speaks of one resolution per capture); further "
               "interfaces without packets may have other parameters", "nanosecond-magic legacy pcap is counted as a legacy pcap variant"]

CHECK = Check(PID, "exploration", RULE, ASSUMPTIONS, stages)
