"""C14 - every cipher-suite code point resolves to the parameters its IANA name denotes (exhaustive over 65536 code points)."""
import json
import os

import engine
import runner  # noqa: F401  (puts /repo on sys.path)
import tlsref
from engine import Stage, Check

PID = "C14"
_REG = None


def registry():
    global _REG
    if _REG is None:
        with open(os.path.join(engine.VERIF, "data", "iana_tls_cipher_suites.json")) as f:
            _REG = json.load(f)
    return _REG


def _names():
    from cryptography.hazmat.primitives import hashes
    from cryptography.hazmat.primitives.ciphers import aead
    from cryptography.hazmat.primitives.ciphers.algorithms import AES, TripleDES, Camellia, IDEA, ARC4
    alg = {"rc4": ARC4, "3des": TripleDES, "idea": IDEA, "aes": AES, "camellia": Camellia, "gcm": aead.AESGCM, "ccm": aead.AESCCM,
           "chacha": aead.ChaCha20Poly1305}
    h = {"sha1": hashes.SHA1, "sha256": hashes.SHA256, "sha384": hashes.SHA384, "md5": hashes.MD5}
    return alg, h


def evaluate(code):
    """one code point, resolved twice in a row (both answers must be the stateless one)"""
    from tlexport.cipher_suite_parser import split_cipher_suite
    key = code.to_bytes(2, "big")
    r1 = _judge(code, split_cipher_suite(key))
    if r1["sig"]:
        return r1
    r2 = _judge(code, split_cipher_suite(key))
    if r2["sig"]:
        r2["sig"] = "second call in a row: " + r2["sig"]
    return r2


def _judge(code, res):
    from tlexport.cipher_suite_parser import cipher_suites
    key = code.to_bytes(2, "big")
    reg = registry().get("%04X" % code)
    if res is None:
        return {"sig": None, "nontrivial": False, "labels": ["rejected-registered" if reg else "rejected-unregistered"]}
    name = cipher_suites.get(key)
    if reg is None:
        return {"sig": "accepted-unregistered-code-point", "detail": f"{code:04X} -> {name}", "nontrivial": True, "key": str(code)}
    if name != reg["name"] and name not in reg["aliases"]:
        return {"sig": "name-is-not-the-registered-one", "detail": f"{code:04X}: table says {name}, registry says {reg['name']}", "nontrivial": True,
                "key": str(code)}
    try:
        s = tlsref.Suite(code, reg["name"])
    except tlsref.UnsupportedName:
        # a registered name whose primitives the reference parser does not model (SM4, ARIA, SEED, GOST ...): all that can be said is
        # whether the resolved primitives are the ones the name spells; anything else is reported
        body = reg["name"].split("_WITH_", 1)[1] if "_WITH_" in reg["name"] else reg["name"][4:]
        toks = body.split("_")
        spelled = {"3DES": "TRIPLEDES", "SHA": "SHA1"}
        got_c = " ".join(getattr(x, "__name__", str(x)).upper() for x in (res["CryptoAlgo"][0], res["Mode"][0]))
        got_h = getattr(res["MAC"], "__name__", str(res["MAC"])).upper()
        if spelled.get(toks[0], toks[0]) not in got_c:
            return {"sig": "wrong-parameter:bulk", "detail": f"{code:04X} {name}: bulk cipher {got_c} for a name that says {toks[0]}", "nontrivial": True,
                    "key": str(code)}
        if spelled.get(toks[-1], toks[-1]) not in got_h:
            return {"sig": "wrong-parameter:MAC/PRF", "detail": f"{code:04X} {name}: hash {got_h} for a name that says {toks[-1]}", "nontrivial": True,
                    "key": str(code)}
        # ... and what the token grammar of every registered name tells without knowing the primitive: AEAD-ness (GCM / CCM / POLY1305 against
        # CBC), the key length a numeric token states, the tag length (CCM_8: 8, other AEADs: 16)
        aead = any(t in ("GCM", "CCM", "POLY1305", "MGM") for t in toks)
        if "CBC" in toks or aead:
            if bool(res["CryptoAlgo"][1]) != aead or bool(res["Mode"][1]) != aead:
                return {"sig": "wrong-parameter:AEAD", "detail": f"{code:04X} {name}: AEAD flags {res['CryptoAlgo'][1]}/{res['Mode'][1]} for a name that says "
                        f"{'AEAD' if aead else 'CBC'}", "nontrivial": True, "key": str(code)}
        bits = [int(t) for t in toks[1:] if t in ("128", "256", "192")]
        if bits and res["KeyLength"] != bits[0] // 8:
            return {"sig": "wrong-parameter:key", "detail": f"{code:04X} {name}: key length {res['KeyLength']}", "nontrivial": True, "key": str(code)}
        if aead and res["TagLength"] != (8 if "CCM_8" in body else 16):
            return {"sig": "wrong-parameter:tag", "detail": f"{code:04X} {name}: tag length {res['TagLength']}", "nontrivial": True, "key": str(code)}
        return {"sig": None, "nontrivial": True, "key": str(code), "labels": ["accepted-beyond-the-reference-parser (token grammar only)"]}
    alg, h = _names()
    bad = []
    if res["CryptoAlgo"][0] is not alg[s.alg]:
        bad.append(f"bulk cipher {res['CryptoAlgo'][0]} != {alg[s.alg].__name__}")
    if bool(res["CryptoAlgo"][1]) != s.aead:
        bad.append(f"AEAD flag of cipher {res['CryptoAlgo'][1]} != {s.aead}")
    if bool(res["Mode"][1]) != s.aead:
        bad.append(f"AEAD flag of mode {res['Mode'][1]} != {s.aead}")
    if res["KeyLength"] != s.key_len:
        bad.append(f"key length {res['KeyLength']} != {s.key_len}")
    want_hash = h[s.prf if s.aead else s.mac]
    if res["MAC"] is not want_hash:
        bad.append(f"MAC/PRF hash {res['MAC']} != {want_hash.__name__}")
    if res["TagLength"] != s.tag:
        bad.append(f"tag length {res['TagLength']} != {s.tag}")
    sig = None
    if bad:
        sig = "wrong-parameter:" + bad[0].split(" ")[0]
    return {"sig": sig, "detail": f"{code:04X} {name}: " + "; ".join(bad), "nontrivial": True, "key": str(code),
            "labels": ["accepted", "kind:" + s.kind, "alg:" + s.alg]}


def verdict(code, res):
    """stateless expectation for one resolver call -> None (fine) or a short reason"""
    r = evaluate.__wrapped__(code, res)
    return r["sig"]


def evaluate_history(spec):
    """a sequence of resolver calls (accepted and rejected code points, repeats): the resolver is a pure function of its argument, so
    every call must give what a fresh call gives - nothing remembered from earlier calls"""
    from tlexport.cipher_suite_parser import split_cipher_suite
    for i, code in enumerate(spec["codes"]):
        res = split_cipher_suite(code.to_bytes(2, "big"))
        sig = verdict(code, res)
        if sig:
            prev = spec["codes"][max(0, i - 2):i]
            return {"sig": "history: " + sig, "detail": f"call #{i} code {code:04X} after {[('%04X' % c) for c in prev]}", "nontrivial": True}
    reg = registry()
    acc = sum(1 for c in spec["codes"] if ("%04X" % c) in reg)
    return {"sig": None, "nontrivial": len(spec["codes"]) >= 4 and 0 < acc < len(spec["codes"]), "labels": ["history"]}


def history_strategy(tier):
    from hypothesis import strategies as st
    from tlexport.cipher_suite_parser import cipher_suites
    accepted = sorted(int.from_bytes(k, "big") for k in cipher_suites)
    near = sorted({c + d for c in accepted for d in (-1, 1)} - set(accepted))
    regd = sorted(int(k, 16) for k in registry())
    code = st.one_of(st.sampled_from(accepted), st.sampled_from(near), st.sampled_from(regd), st.integers(0, 65535))

    @st.composite
    def seq(draw):
        base = draw(st.lists(code, min_size=2, max_size=12))
        out = []
        for c in base:
            out.append(c)
            if draw(st.integers(0, 2)) == 0:
                out.append(c)                      # the same code point again, immediately
            if draw(st.integers(0, 4)) == 0 and out:
                out.append(draw(st.sampled_from(out)))   # or an earlier one again
        return {"codes": out}
    return seq()


def evaluate_quic_pair(spec):
    """the QUIC resolver as a connection uses it: first for the suite the ClientHello offers first, then for the one the ServerHello
    selects - the parameters after the second call are those of the second code point"""
    first, second = spec
    r = evaluate_quic(second, first)
    if r.get("sig"):
        r["sig"] = "after another suite was resolved for the same connection: " + r["sig"]
    r["key"] = "qp%d/%d" % (first, second)
    r["labels"] = ["quic-pair"]
    return r


def evaluate_quic(code, first=None):
    """second resolver: QuicSession.set_tls_decryptors"""
    from tlexport.quic.quic_session import QuicSession
    from tlexport.quic.quic_decode import QuicVersion
    from tlexport.keylog_reader import Key
    from cryptography.hazmat.primitives import hashes
    from cryptography.hazmat.primitives.ciphers import aead
    qs = object.__new__(QuicSession)
    cr = bytes(range(32))
    qs.keylog = [Key(f"{lab} {cr.hex()} {'ab' * 48}") for lab in ("CLIENT_HANDSHAKE_TRAFFIC_SECRET", "SERVER_HANDSHAKE_TRAFFIC_SECRET",
                                                                   "CLIENT_TRAFFIC_SECRET_0", "SERVER_TRAFFIC_SECRET_0")]
    qs.keys, qs.decryptors, qs.quic_version, qs.can_decrypt = {}, {}, QuicVersion.V1, True
    qs.hash_fun = qs.cipher = qs.key_length = None
    qs.early_traffic_keys = False
    exc = None
    try:
        if first is not None:
            qs.set_tls_decryptors(cr, first.to_bytes(2, "big"))
        qs.set_tls_decryptors(cr, code.to_bytes(2, "big"))
    except Exception as e:  # noqa
        exc = type(e).__name__
    want = {0x1301: (hashes.SHA256, aead.AESGCM, 16), 0x1302: (hashes.SHA384, aead.AESGCM, 32),
            0x1303: (hashes.SHA256, aead.ChaCha20Poly1305, 32), 0x1304: (hashes.SHA256, aead.AESCCM, 16)}.get(code)
    got = (qs.hash_fun, qs.cipher, qs.key_length)
    accepted = "Application" in qs.decryptors or got != (None, None, None)
    if want is None:
        if accepted:
            return {"sig": "quic-resolver-accepts-non-quic-suite", "detail": f"{code:04X} -> {got}", "nontrivial": True, "key": "q%d" % code}
        return {"sig": None, "nontrivial": False, "labels": ["quic-rejected"]}
    sig = None
    if got != want or exc or "Application" not in qs.decryptors:
        sig = "quic-resolver-wrong-parameters"
    return {"sig": sig, "detail": f"{code:04X} -> {got} exc={exc}", "nontrivial": True, "key": "q%d" % code, "labels": ["quic-accepted"]}


def use_specs():
    """every (table suite, version it is valid for, encrypt-then-MAC where applicable) and the four QUIC suites"""
    out = [{"tls": list(c)} for c in tlsref.all_combos()]
    out += [{"quic": c} for c in (0x1301, 0x1302, 0x1303, 0x1304)]
    return out


def evaluate_after_use(spec):
    """a connection negotiating the suite is decrypted by the whole tool (in this process); afterwards every accepted code point - the
    one just used first - must still resolve to what its name denotes, and the QUIC resolver to its four suites: what a connection did
    with the resolved parameters must not reach the next resolution"""
    import oracle
    import scenario
    from tlexport.cipher_suite_parser import split_cipher_suite, cipher_suites
    ep = {"v6": False, "cmac": "020000000011", "smac": "020000000012", "sport": 443, "cport": 41000, "cip": "10.9.8.7", "sip": "192.168.200.9"}
    if "tls" in spec:
        code, ver, etm = spec["tls"]
        conn = {"kind": "tls", "version": ver, "suite": code, "etm": bool(etm), "seed": 1400 + code, "ep": ep, "history": [[0, 70, 0], [1, 200, 0], [0, 1, 0]]}
        used = code
    else:
        used = spec["quic"]
        conn = {"kind": "quic", "suite": used, "seed": 1400 + used, "ep": ep,
                "steps": [{"op": "data", "d": 0, "pk": [{"fr": [["stream", 0, 40, None, False, True, None]], "gap": 0, "pnl": 0}]},
                          {"op": "data", "d": 1, "pk": [{"fr": [["stream", 0, 60, None, False, True, None]], "gap": 0, "pnl": 0}]}]}
    b = scenario.build({"conns": [conn, dict(conn, seed=conn["seed"] + 7, ep=dict(ep, cport=41001))], "order": [0, 1], "tseed": 3})
    o = oracle.run_e2e(b, engine.workdir())
    f = oracle.base_failure(o)
    labels = ["after-use", "used:" + ("quic" if "quic" in spec else "tls-%04x" % spec["tls"][1])]
    if f or not o.pkts:
        return {"sig": "after use: the connection that was to use the suite is not exported (" + str(f) + ")", "detail": str(spec), "nontrivial": True,
                "labels": labels}
    order = [used] + sorted(int.from_bytes(k, "big") for k in cipher_suites if int.from_bytes(k, "big") != used)
    for code in order:
        r = _judge(code, split_cipher_suite(code.to_bytes(2, "big")))
        if r["sig"]:
            return {"sig": "after a connection used a suite: " + r["sig"], "detail": f"used {used:04X}; {r.get('detail')}", "nontrivial": True,
                    "labels": labels}
    for code in (0x1301, 0x1302, 0x1303, 0x1304, used):
        r = evaluate_quic(code)
        if r["sig"]:
            return {"sig": "after a connection used a suite: " + r["sig"], "detail": f"used {used:04X}; {r.get('detail')}", "nontrivial": True,
                    "labels": labels}
    return {"sig": None, "nontrivial": True, "key": "use%s" % spec, "labels": labels, "evals": 1 + len(order) + 5}


def stages(tier):
    evaluate.__wrapped__ = _judge
    u = Stage("resolution-after-use", evaluate_after_use, specs=use_specs())
    a = Stage("all-code-points", evaluate, specs=list(range(65536)), chunksize=2048)
    d = Stage("all-code-points-descending", evaluate, specs=list(range(65535, -1, -1)), chunksize=2048)
    h = Stage("call-histories", evaluate_history, strategy=history_strategy, examples=4000 if tier == "quick" else 200000)
    b = Stage("quic-resolver-all-code-points", evaluate_quic, specs=list(range(65536)), chunksize=2048)
    q = Stage("quic-resolver-selected-after-offered", evaluate_quic_pair,
              specs=[[f, s_] for f in (0x1301, 0x1302, 0x1303, 0x1304) for s_ in (0x1301, 0x1302, 0x1303, 0x1304) if f != s_])
    return [a, d, b, q, h, u]




RULE = ("all 65536 two-byte code points are enumerated (ascending and descending, each resolved twice in a row) for the suite resolver and once "
        "for the QUIC session's resolver (plus all ordered pairs of QUIC suites: first-offered suite resolved first, selected suite second), plus Hypothesis call histories (accepted / neighbouring / registered-but-unsupported / random code "
        "points with immediate and later repeats) in which every call must give the stateless answer; stage resolution-after-use: after the whole tool decrypted two connections "
        "negotiating a suite (every table suite x version x encrypt-then-MAC, 4 QUIC suites) every accepted code point is resolved again; oracle = "
        "independent registry copy (data/iana_tls_cipher_suites.json) + independent name parser (lib/tlsref.Suite); non-trivial = "
        "accepted code points (each distinct)")
ASSUMPTIONS = ["data/iana_tls_cipher_suites.json is a faithful copy of the IANA registry for the code points TLExport accepts (compiled from "
               "scapy's and dpkt's tables, which must agree, and RFC 8442/8446/7905/8492; provenance in data/build_registry.py)",
               "PSK_DHE (registry) / DHE_PSK (libraries) spelling of 0xC0AA/0xC0AB is tolerated as an alias"]

CHECK = Check(PID, "exploration", RULE, ASSUMPTIONS, stages)
CHECK.exhaustive = True
