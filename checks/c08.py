"""C08 - cutting the capture at any point only removes a suffix of the export (every cut position enumerated)."""
from hypothesis import strategies as st

import engine
import oracle
import runner  # noqa: F401
import scenario
import strategies
from engine import Stage, Check

PID = "C08"


def exports(spec, b, o):
    """per connection: TLS -> {False: bytes, True: bytes}; QUIC -> [(srv, payload)]; raises BadOutput"""
    out = []
    for ci, cs in enumerate(spec["conns"]):
        if cs["kind"] == "tls":
            key, c, s = oracle.ep_key(cs["ep"], 6)
            pk = o.flows.get(key)
            if not pk:
                out.append({False: b"", True: b""})
            else:
                stt = oracle.tcp_streams(pk)
                out.append({False: stt[False], True: stt[True]})
        elif cs["kind"] == "quic":
            out.append([(srv, pl) for srv, pl, _ in oracle.quic_flow_list(o, cs["ep"])])
        else:
            out.append(None)
    return out


def is_prefix(a, b_):
    if a is None:
        return True
    if isinstance(a, dict):
        return all(b_[d].startswith(a[d]) for d in (False, True))
    return a == b_[:len(a)]


def size(e):
    if e is None:
        return 0
    if isinstance(e, dict):
        return len(e[False]) + len(e[True])
    return sum(len(p) for _, p in e)


def evaluate(spec):
    b = scenario.build(spec)
    wd = engine.workdir()
    n = len(b.pkts)
    truth = []
    for ci, cs in enumerate(spec["conns"]):
        conn = b.conns[ci]
        if cs["kind"] == "tls":
            truth.append({False: bytes(conn.truth[False]), True: bytes(conn.truth[True])})
        elif cs["kind"] == "quic":
            truth.append(conn.expected_export())
        else:
            truth.append(None)
    meta = bool((spec.get("opts") or {}).get("a"))
    if meta:
        # with -a the export also holds handshake material: the prefix chain is judged, the ground truth (application data only) is not
        truth = [None] * len(truth)
    for ci, cs in enumerate(spec["conns"]):
        if cs.get("hrr"):
            truth[ci] = None            # what is exported after a HelloRetryRequest is not claimed; that it only ever grows is
    prev = None
    sig, detail = None, ""
    distinct = set()
    evals = 0
    cut_inside_record = False
    # secrets inside the capture: one decryption secrets block per connection, written right before the connection's first packet -
    # a cut in front of that packet cuts the block off as well
    per_conn_dsb = None
    if spec.get("dsb_per_conn"):
        per_conn_dsb = []
        for ci, conn in enumerate(b.conns):
            lines = [b.keylog.index(ln) for ln in getattr(conn, "keylog", []) if ln in b.keylog]
            first = next((i for i, p in enumerate(b.pkts) if p.conn == ci), None)
            if lines and first is not None:
                per_conn_dsb.append((first, lines))
        per_conn_dsb.sort()
    for k in range(0, n + 1):
        keys = None
        if per_conn_dsb is not None:
            keys = {"file": False, "dsb": [ln for first, ln in per_conn_dsb if first < k], "dsb_pos": [first for first, ln in per_conn_dsb if first < k]}
        o = oracle.run_e2e(b, wd, pkts=b.pkts[:k], keys=keys, opts=spec.get("opts"), name="cut")
        evals += 1
        f = oracle.base_failure(o)
        if f:
            sig, detail = f"cut at {k}/{n}: " + f, (o.run.exc or "")[-300:]
            break
        try:
            cur = exports(spec, b, o)
        except oracle.BadOutput as e:
            sig, detail = "cut capture yields malformed TCP conversation: " + str(e).split(":")[0][:40], f"cut at {k}/{n}: {e}"
            break
        for ci, (c, t) in enumerate(zip(cur, truth)):
            if t is not None and not is_prefix(c, t):
                kind = spec["conns"][ci]["kind"]
                sig, detail = f"{kind}: export of a cut capture is not a prefix of the true plaintext", f"cut at {k}/{n}, connection #{ci}"
                break
            if prev is not None and not is_prefix(prev[ci], c):
                kind = spec["conns"][ci]["kind"]
                sig, detail = f"{kind}: extending the capture retracts or alters data that was already exported", f"cut {k - 1} -> {k} of {n}, connection #{ci}"
                break
        if sig:
            break
        distinct.add(tuple(size(c) for c in cur))
        prev = cur
    if sig is None and prev is not None:
        for ci, (c, t) in enumerate(zip(prev, truth)):
            if t is not None and c != t:
                sig, detail = "full capture does not export the ground truth (C01/C02)", f"connection #{ci}"
                break
    # a cut strictly inside a record that spans packets exists whenever some TLS segment does not end at a record boundary
    for ci, cs in enumerate(spec["conns"]):
        if cs["kind"] == "tls" and b.segs[ci]:
            ends = {(s_[0], s_[2]) for s_ in scenario.record_spans(b.conns[ci])}
            if any((sg["srv"], sg["off"] + len(sg["data"])) not in ends for sg in b.segs[ci]):
                cut_inside_record = True
    kinds = "+".join(sorted(c["kind"] for c in spec["conns"]))
    return {"sig": sig, "detail": detail, "nontrivial": len(distinct) >= 3 and (cut_inside_record or "quic" in kinds), "evals": evals,
            "labels": ["kinds:" + kinds, "keys:" + ("dsb-per-connection" if spec.get("dsb_per_conn") else "file"), "cuts:%s" % ("<=20" if n <= 20 else "21-40" if n <= 40 else "41+"), "times:" + (spec.get("times") or "epoch"), "opts:" + ("-a" if (spec.get("opts") or {}).get("a") else "-"), "growth-steps:%d" % min(len(distinct), 9)]}


@st.composite
def spec_strategy(draw, tier):
    n = draw(st.integers(1, 2 if tier == "quick" else 3))
    conns = []
    for i in range(n):
        k = draw(st.sampled_from(["tls", "tls", "quic"]))
        ep = strategies.endpoints(idx=i)
        if k == "tls":
            c = draw(strategies.tls_conn(max_records=5, max_len=400, ep=ep, bytes_mode_limit=0,
                                         delivery=strategies.tcp_delivery(modes=("rec", "rec", "cuts", "cuts", "flight"), wrap=True, dups=True, moves=True)))
            c["cert_len"] = min(c.get("cert_len", 300), 300)
            if c.get("hs_frag"):
                c["hs_frag"] = 256        # small certificates keep the captures short; a small fragment size still splits the flight over records
            c["tcp"]["mss"] = max(c["tcp"]["mss"], 536)
            c["tcp"]["acks"] = False
            if c["version"] == 0x0304 and draw(st.integers(0, 5)) == 0:
                c["hrr"] = draw(st.integers(1, 2))
        else:
            c = draw(strategies.quic_conn(max_steps=6, ep=ep))
        c["seed"] = c["seed"] * 8 + i
        conns.append(c)
    sc = {"conns": conns, "order": draw(st.lists(st.integers(0, 3), min_size=1, max_size=8)), "tseed": draw(st.integers(1, 500)),
          "dsb_per_conn": draw(st.sampled_from([False, False, True]))}
    # "cut after any packet" is about the order of the packets in the file; their times need not follow it (captures merged from
    # several interfaces), and relative times start at 0
    if draw(st.integers(0, 3)) == 0:
        sc["opts"] = {"a": True}
    tm = draw(st.sampled_from([None, None, "disorder", "disorder", "zero", "long_gaps"]))
    if tm:
        sc["times"] = tm
    return sc


def late_handshake_specs():
    """connection A's handshake (server flight fragmented over records, or not) lies behind the whole of connection B, in both
    creation orders: cuts inside A's handshake must not touch what B already exported"""
    out = []
    i = 0
    for va, vb in ((0x0303, 0x0303), (0x0304, 0x0303), (0x0303, 0x0304), (0x0304, 0x0304), (0x0301, 0x0303)):
        for frag in (0, 256):
            for first in (0, 1):
                def conn(j, ver, hs_frag):
                    suite = {0x0303: 0xC02F, 0x0304: 0x1301, 0x0301: 0x002F}[ver]
                    return {"kind": "tls", "version": ver, "suite": suite, "seed": 8800 + 10 * i + j, "hs_frag": hs_frag, "cert_len": 400,
                            "history": [[0, 40, 0], [1, 120, 0], [0, 7, 0]], "ep": scenario.default_ep(2 * i + j),
                            "tcp": {"mode": "rec", "syn": bool(j), "acks": False, "mss": 1400, "isn_c": 100 + j, "isn_s": 900 + j}}
                a, b_ = conn(0, va, frag), conn(1, vb, 0)
                # order: A's first packet(s) [when A is created first], then all of B, then the rest of A
                order = ([0] if first == 0 else []) + [1] * 40 + [0] * 60
                out.append({"conns": [a, b_], "order": order, "tseed": 1 + i, "dsb_per_conn": bool(i % 2)})
                i += 1
    # a QUIC client that changes its address in the middle of the connection (both endpoints use connection IDs): what was exported
    # before the change stays as it was
    data = lambda d, n: {"op": "data", "d": d, "pk": [{"fr": [["stream", 0, n, None, False, True, None]], "gap": 0, "pnl": 0}]}
    for j, (sl, cl, v6) in enumerate(((8, 8, False), (4, 12, True), (20, 1, False))):
        q = {"kind": "quic", "seed": 8900 + j, "suite": [0x1301, 0x1303, 0x1302][j], "s_scid_len": sl, "c_scid_len": cl,
             "steps": [data(0, 20), data(1, 60), {"op": "rebind"}, data(0, 21), data(1, 61), data(0, 22), {"op": "rebind"}, data(1, 62), data(0, 23)],
             "ep": scenario.default_ep(60 + j, v6=v6)}
        out.append({"conns": [q], "order": [0], "tseed": 40 + j})
    # a QUIC stream that carried data is reset (a cancelled request), other streams go on: what was exported stays
    fr = lambda d, frames: {"op": "data", "d": d, "pk": [{"fr": frames, "gap": 0, "pnl": 0}]}
    for j, (who, sid) in enumerate(((0, 0), (1, 0), (0, 4), (1, 4))):
        q = {"kind": "quic", "seed": 8930 + j, "suite": [0x1301, 0x1303][j % 2],
             "steps": [fr(0, [["stream", 0, 20, None, False, True, None]]), fr(1, [["stream", 0, 60, None, False, True, None]]),
                       fr(0, [["stream", 4, 21, None, False, True, None]]), fr(1, [["stream", 4, 61, None, False, True, None]]),
                       fr(who, [["reset", sid, 7, 20, None], ["stream", 8, 22, None, False, True, None]]),
                       fr(1 - who, [["stop", sid, 7, None], ["stream", 8, 62, None, False, True, None]]),
                       fr(0, [["stream", 4, 23, 21, False, True, None]]), fr(1, [["stream", 4, 63, 61, False, True, None]])],
             "ep": scenario.default_ep(64 + j, v6=bool(j % 2))}
        out.append({"conns": [q], "order": [0], "tseed": 44 + j})
    # TLS 1.3 with a HelloRetryRequest (with and without the compatibility ChangeCipherSpec), with and without -a: whatever is exported
    # (not claimed by C01) only ever grows
    for j, (hrr, a) in enumerate(((1, False), (2, False), (1, True), (2, True))):
        c = {"kind": "tls", "version": 0x0304, "suite": 0x1301, "seed": 8950 + j, "hrr": hrr, "cert_len": 300, "history": [[0, 40, 0], [1, 120, 0], [0, 7, 0]],
             "ep": scenario.default_ep(70 + j), "tcp": {"mode": "rec", "syn": True, "acks": False, "mss": 1400, "isn_c": 5, "isn_s": 9}}
        out.append(dict({"conns": [c], "order": [0], "tseed": 50 + j}, **({"opts": {"a": True}} if a else {})))
    return out


def stages(tier):
    quick = tier == "quick"
    return [Stage("late-handshake-behind-a-complete-connection", evaluate, specs=late_handshake_specs()),
            Stage("all-cuts", evaluate, strategy=lambda t: spec_strategy(t), examples=480 if quick else 8000, shrink=False)]


RULE = ("stage late-handshake-behind-a-complete-connection: two TLS connections, one complete before the other's (fragmented or plain) handshake, "
        "both creation orders, and QUIC connections whose client changes its address twice; stage all-cuts: captures of 1-3 TLS/QUIC connections with retransmitted and (causally) displaced TCP segments (cuts inside handshakes, inside records spanning packets, between coalesced flights and after key "
        "changes arise because EVERY cut position k = 0..N of each capture is run); metamorphic chain: E(k) (per connection: per-direction byte "
        "stream for TLS, datagram list for QUIC) is a prefix of E(k+1), E(k) is a prefix of the ground truth, E(N) equals it.  Non-trivial: the "
        "chain has >= 3 distinct values and a cut falls strictly inside a TLS record that spans packets (or the capture has a QUIC connection); "
        "evaluations count TLExport runs")
ASSUMPTIONS = ["cuts are made between captured packets (a capture file holds whole packets)",
               "in a third of the captures the secrets travel in the capture, one decryption secrets block per connection in front of its first packet"]

CHECK = Check(PID, "fault_enumeration", RULE, ASSUMPTIONS, stages)
