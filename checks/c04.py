"""C04 - concurrent connections are demultiplexed; each is exported as if it were alone."""
from ipaddress import ip_address

from hypothesis import strategies as st

import engine
import oracle
import runner  # noqa: F401
import scenario
import strategies
import tlsref
from engine import Stage, Check

PID = "C04"


def pkt_key(p):
    return (p.ts, p.smac, p.dmac, p.v6, p.sip, p.dip, p.proto, p.sport, p.dport, p.seq, p.ack, p.flags, p.payload)


def evaluate(spec):
    b = scenario.build(spec)
    wd = engine.workdir()
    # the key log is shared: all connections' lines shuffled together, sometimes among hundreds of lines of connections that are not
    # in the capture (a browser's SSLKEYLOGFILE), so that the log is several read blocks long
    keys = {"file": True, "shuffle": True, "seed": spec.get("kseed", 0), "unrelated": spec.get("kpad", 0)}
    solo_keys = {}
    if spec.get("dsb_per_conn"):
        # ... or the secrets travel in the capture: one decryption secrets block per connection, directly in front of its first packet
        per = []
        for ci, conn in enumerate(b.conns):
            lines = [b.keylog.index(ln) for ln in getattr(conn, "keylog", []) if ln in b.keylog]
            first = next((i for i, p in enumerate(b.pkts) if p.conn == ci), None)
            if lines and first is not None:
                per.append((first, lines))
                solo_keys[ci] = {"file": False, "dsb": [lines], "dsb_pos": "first"}
        if per:
            keys = {"file": False, "dsb": [ln for _, ln in per], "dsb_pos": [f for f, _ in per]}
    o = oracle.run_e2e(b, wd, keys=keys, name="all")
    f = oracle.base_failure(o)
    evals = 1
    if f:
        return {"sig": "combined capture: " + f, "detail": (o.run.exc or "")[-300:], "nontrivial": True, "evals": evals}
    combined = [pkt_key(p) for p in o.pkts]
    remaining = list(combined)
    sig, detail = None, ""
    exporting = 0
    for ci, cs in enumerate(spec["conns"]):
        if cs["kind"] == "noise":
            continue
        solo_pk = [p for p in b.pkts if p.conn == ci]
        os_ = oracle.run_e2e(b, wd, pkts=solo_pk, keys=solo_keys.get(ci, keys) if spec.get("dsb_per_conn") else keys, name="solo")
        evals += 1
        f = oracle.base_failure(os_)
        if f:
            return {"sig": "solo capture: " + f, "detail": (os_.run.exc or "")[-300:], "nontrivial": False, "evals": evals}
        solo = [pkt_key(p) for p in os_.pkts]
        if solo:
            exporting += 1
        # the connection's packets inside the combined output, in order
        ep = cs["ep"]
        c = (ip_address(ep["cip"]).packed, ep["cport"])
        sip = ip_address(ep["sip"]).packed
        proto = 6 if cs["kind"] == "tls" else 17
        mine = [k for k in combined if k[6] == proto and (((k[4], k[7]) == c and k[5] == sip) or ((k[5], k[8]) == c and k[4] == sip))]
        if mine != solo:
            kind = cs["kind"]
            if len(mine) < len(solo):
                what = "loses packets"
            elif len(mine) > len(solo):
                what = "gains packets"
            else:
                what = "changes"
            sig = f"{kind} connection {what} when other connections are in the capture"
            others = sorted(c2["kind"] for j, c2 in enumerate(spec["conns"]) if j != ci)
            detail = f"connection #{ci}: {len(mine)} packets in the combined export, {len(solo)} alone; others: {others}"
            break
        for k in solo:
            if k in remaining:
                remaining.remove(k)
        # ground truth per flow
        if cs["kind"] == "tls":
            s2, d2 = oracle.tls_flow_check(os_, b.conns[ci], ep)
        else:
            s2, d2 = oracle.quic_flow_check(os_, b.conns[ci], ep)
        if s2:
            return {"sig": "content (C01/C02) of a solo run: " + s2, "detail": d2, "nontrivial": False, "evals": evals}
    if sig is None and remaining:
        sig, detail = "combined export contains packets of no connection", f"{len(remaining)} packets, first {remaining[0][:9]}"
    # alternations between connections inside the merge
    seq = [p.conn for p in b.pkts]
    alt = sum(1 for x, y in zip(seq, seq[1:]) if x != y)
    kinds = sorted(c["kind"] for c in spec["conns"])
    labels = ["n:%d" % len(spec["conns"]), "mix:" + "+".join(sorted(set(kinds))), "alternations:%s" % ("<3" if alt < 3 else "3-10" if alt <= 10 else ">10"),
              "topology:" + spec.get("topology", "?")]
    if sum(1 for c in spec["conns"] if c.get("share_cids")) >= 2:
        labels.append("quic-connections-with-equal-cids")
    sp_ = {c["ep"]["sport"] for c in spec["conns"] if c["kind"] == "quic"} - {443, 44330}
    if sp_ & {c["ep"]["cport"] for c in spec["conns"]}:
        labels.append("client-port-equals-a-quic-server-port")
    if sum(1 for c in spec["conns"] if c.get("share_master")) >= 2:
        labels.append("tls-connections-with-equal-master-secret")
    tuples = {}
    for c_ in spec["conns"]:
        e_ = c_["ep"]
        tuples.setdefault((e_["cip"], e_["cport"], e_["sip"], e_["sport"]), set()).add(c_["kind"])
    if any(len(v) > 1 for v in tuples.values()):
        labels.append("tcp-and-udp-flow-with-equal-addresses-and-ports")
    labels.append("times:" + (spec.get("times") or "epoch"))
    labels.append("keys:" + ("one DSB per connection in front of its first packet" if spec.get("dsb_per_conn") else "shared file"))
    labels.append("keylog:" + ("long (%d foreign lines)" % spec["kpad"] if spec.get("kpad") else "own lines only"))
    return {"sig": sig, "detail": detail, "nontrivial": exporting >= 2 and alt >= 3, "labels": labels, "evals": evals}


@st.composite
def spec_strategy(draw, tier):
    n = draw(st.integers(2, 5 if tier == "quick" else 10))
    if tier == "quick" and draw(st.integers(0, 7)) == 0:
        n = draw(st.integers(6, 9))         # busy captures also in the quick tier (F44 needed 8 connections to one server)
    topology = draw(st.sampled_from(["distinct", "same-hosts", "same-client-port", "same-server", "swapped-roles", "mixed"]))
    v6 = draw(st.booleans())
    base = draw(strategies.endpoints(idx=0, v6=v6))
    conns = []
    used = set()
    # connection IDs are chosen per endpoint, nothing keeps two connections from choosing the same ones
    share = draw(st.sampled_from([None, None, None, 1, 2]))
    share_lens = None
    quic_ports = []      # server ports of QUIC connections outside the default list (a QUIC session exists for any UDP port)
    for i in range(n):
        k = draw(st.sampled_from(["tls", "tls", "quic", "quic", "noise"])) if i >= 2 else draw(st.sampled_from(["tls", "quic"]))
        topo = topology if topology != "mixed" else draw(st.sampled_from(["distinct", "same-hosts", "same-client-port", "same-server", "swapped-roles"]))
        ep = draw(strategies.endpoints(idx=i, v6=(v6 if topo != "distinct" else None)))
        if topo == "same-hosts":          # same two hosts, different client ports
            ep.update(cip=base["cip"], sip=base["sip"], cmac=base["cmac"], smac=base["smac"], v6=base["v6"], cport=20000 + 97 * i + ep["cport"] % 50)
        elif topo == "same-client-port":  # same client address and port towards different servers
            ep.update(cip=base["cip"], cmac=base["cmac"], cport=base["cport"], v6=base["v6"])
            ep["sip"] = ("2001:db8:ffff::%x" % (i + 1)) if base["v6"] else "172.16.%d.%d" % (i, 1 + i)
        elif topo == "swapped-roles" and i % 2 == 1:   # the same two hosts and the same two port numbers, roles exchanged: X:p -> Y:q and Y:p -> X:q
            ep.update(cip=base["sip"], sip=base["cip"], cmac=base["smac"], smac=base["cmac"], v6=base["v6"], cport=base["cport"], sport=base["sport"])
        elif topo == "swapped-roles":
            ep.update(cip=base["cip"], sip=base["sip"], cmac=base["cmac"], smac=base["smac"], v6=base["v6"], cport=1024 + (base["cport"] - 1024 + (i // 2)) % 64000, sport=base["sport"])
        elif topo == "same-server":       # different clients, one server
            ep.update(sip=base["sip"], smac=base["smac"], v6=base["v6"])
            ep["cip"] = ("2001:db8:eeee::%x" % (i + 1)) if base["v6"] else "10.99.%d.%d" % (i, 1 + i)
        if k == "quic" and topo in ("distinct", "same-server") and draw(st.integers(0, 2)) == 0:
            ep["sport"] = draw(st.sampled_from([4433, 50000, 8853]))
            quic_ports.append(ep["sport"])
        elif k != "noise" and quic_ports and topo == "distinct" and draw(st.integers(0, 1)) == 0:
            # a later client happens to use, as its ephemeral port, the number of a port some QUIC server listens on
            ep["cport"] = draw(st.sampled_from(quic_ports))
        what = None
        if k == "noise":
            ep["sport"] = draw(st.sampled_from([80, 8080, 53, 443]))
            what = draw(st.sampled_from(["http", "tcp_other", "dns", "udp_rand", "arp", "udp_quicish"]))
            tls_eps = [c_["ep"] for c_ in conns if c_["kind"] == "tls"]
            if what in ("dns", "udp_rand", "udp_quicish") and tls_eps and draw(st.integers(0, 1)) == 0:
                # unrelated UDP traffic between the very addresses and port numbers of a TLS connection: TCP and UDP port spaces are
                # independent, these are two flows
                ep = dict(draw(st.sampled_from(tls_eps)))
        # one flow per (protocol, address pair, port pair), in either orientation
        protos = ("udp",) if k == "quic" or what in ("dns", "udp_rand", "udp_quicish") else ("tcp",) if k == "tls" or what in ("http", "tcp_other") else ("tcp", "udp")

        def taken():
            return any((pr, ep["cip"], ep["cport"], ep["sip"], ep["sport"]) in used or (pr, ep["sip"], ep["sport"], ep["cip"], ep["cport"]) in used
                       for pr in protos)
        while taken() or ep["cport"] in (443, 44330) or ep["cport"] == ep["sport"]:
            ep["cport"] = 1024 + (ep["cport"] - 1023) % 64000
        for pr in protos:
            used.add((pr, ep["cip"], ep["cport"], ep["sip"], ep["sport"]))
        if k == "tls":
            c = draw(strategies.tls_conn(max_records=6, max_len=400, ep=st.just(ep), bytes_mode_limit=0,
                                         delivery=strategies.tcp_delivery(modes=("rec", "cuts", "flight"), wrap=True, dups=True)))
            if share and c["version"] != 0x0304:
                c["share_master"] = 2000 + share        # parallel resumption of one session: same master secret, own randoms
            if c["version"] != 0x0304 and tlsref.load_suites()[c["suite"]].kind != "stream" and draw(st.integers(0, 3)) == 0:
                c["sh_comp"] = True                     # DEFLATE negotiated (one stream per connection and direction)
        elif k == "quic":
            c = draw(strategies.quic_conn(max_steps=6, ep=st.just(ep)))
            if share:
                share_lens = share_lens or (c["c_scid_len"], c["s_scid_len"])
                c["share_cids"] = 1000 + share
                c["c_scid_len"], c["s_scid_len"] = share_lens
        else:
            c = {"kind": "noise", "what": what, "seed": draw(st.integers(0, 1 << 20)),
                 "n": draw(st.integers(1, 4)), "ep": ep}
        c["seed"] = c.get("seed", 0) * 16 + i
        conns.append(c)
    return {"conns": conns, "order": draw(st.lists(st.integers(0, 9), min_size=2, max_size=20)), "tseed": draw(st.integers(1, 1000)),
            "kseed": draw(st.integers(0, 1 << 20)), "topology": topology, "kpad": draw(st.sampled_from([0, 0, 0, 120, 400])), **({"times": "long_gaps"} if draw(st.integers(0, 3)) == 0 else {}),
            "dsb_per_conn": draw(st.sampled_from([False, False, False, True]))}


@st.composite
def quic_handshake_interleave(draw, tier):
    """concurrent QUIC handshakes whose ClientHello / server flight are split over several datagrams at the SAME offsets (real stacks cut at
    MTU-derived offsets) and delivered out of order, interleaved datagram by datagram: shared reassembly state would show here"""
    n = draw(st.integers(2, 4))
    chunk = draw(st.sampled_from([61, 97, 128]))
    conns = []
    for i in range(n):
        c = draw(strategies.quic_conn(max_steps=4, ep=strategies.endpoints(idx=i), retry=False, early=False))
        c.update(split_chunk=chunk, split_ch=draw(st.sampled_from([2, 3, 5])), ch_shuffle=True, split_shs=draw(st.sampled_from([0, 2, 3])))
        c["seed"] = c["seed"] * 16 + i
        conns.append(c)
    return {"conns": conns, "order": draw(st.lists(st.integers(0, 3), min_size=2, max_size=12)), "tseed": draw(st.integers(1, 1000)),
            "kseed": draw(st.integers(0, 1 << 20)), "topology": "quic-handshakes", "dsb_per_conn": draw(st.sampled_from([False, False, True]))}


def stages(tier):
    quick = tier == "quick"
    return [Stage("interleavings", evaluate, strategy=lambda t: spec_strategy(t), examples=400 if quick else 10000),
            Stage("quic-handshake-interleave", evaluate, strategy=lambda t: quic_handshake_interleave(t), examples=300 if quick else 6000)]


RULE = ("2-5 (thorough: 2-10) connections, TLS and QUIC mixed with unrelated traffic, endpoint topologies {all distinct, same two hosts with different "
        "client ports, same client address+port towards different servers, one server for different clients, the same two hosts and port numbers with exchanged roles, mixed}, IPv4/IPv6; their packet "
        "sequences are merged by a drawn order-preserving merge, times are assigned after merging, the key-log lines of all connections are "
        "shuffled together; oracle (metamorphic): every connection's packets in the combined export equal, byte for byte and time for time, the "
        "export of the capture filtered to that connection, nothing else is in the combined export, and each solo export is the ground truth.  "
        "Non-trivial: >= 2 connections export data and the merge alternates between connections >= 3 times; evaluations count TLExport runs")
ASSUMPTIONS = ["distinct connections have distinct 5-tuples, client randoms and (QUIC) connection IDs",
               "a noise flow never uses the same client address+port as a decrypted connection"]

CHECK = Check(PID, "exploration", RULE, ASSUMPTIONS, stages)
