"""C03 - an undecryptable or damaged flow never aborts the run or disturbs other flows (fault enumeration)."""
import os
import random
import subprocess
import sys
import tempfile

from hypothesis import strategies as st

import engine
import netio
import oracle
import runner
import scenario
import strategies
import tlsref
from engine import Stage, Check, StageResult

PID = "C03"
REMOVING = {"delete", "delete_nth_data", "cut_before", "cut_after", "drop_prefix", "keys_remove", "unknown_suite", "shorten", "foreign"}     # only remove information / add foreign traffic
POSITION_FAULTS = ["delete", "cut_before", "cut_after", "drop_prefix", "flip", "overwrite", "shorten", "header"]



def flow_seq(o, ep, proto):
    """exported packets between the flow's client endpoint and its server address, as (ts, frame-independent tuple)"""
    key, c, s = oracle.ep_key(ep, proto)
    out = []
    for p in o.pkts or []:
        if p.proto != proto:
            continue
        if ((p.sip, p.sport) == c and p.dip == s[0]) or ((p.dip, p.dport) == c and p.sip == s[0]):
            out.append((p.ts, p.smac, p.dmac, p.sip, p.dip, p.sport, p.dport, p.seq, p.ack, p.flags, p.payload))
    return out


def apply_fault(b, fault, rnd):
    """-> (pkts, keylog lines, note).  b.pkts carry their timestamps already; faults never shift other packets' times"""
    kind = fault["kind"]
    pkts = list(b.pkts)
    keylog = list(b.keylog)
    vic = [i for i, p in enumerate(pkts) if p.conn == 0]
    if kind == "delete_nth_data":
        # the nth application-data segment (behind the first two, which belong to the short exchange in front) of one direction
        cand = [i for i in vic if pkts[i].payload and pkts[i].srv == bool(fault["dir"]) and pkts[i].payload[:1] == b"\x17"]
        if len(cand) <= 1 + fault["nth"]:
            return pkts, keylog, "no victim packets"
        i = cand[1 + fault["nth"]]
        del pkts[i]
        return pkts, keylog, f"delete@{i}(data segment {1 + fault['nth']} of {len(cand)})"
    if kind in POSITION_FAULTS:
        if not vic:
            return pkts, keylog, "no victim packets"
        i = vic[fault["pos"] % len(vic)]
        p = pkts[i]
        if kind == "delete":
            del pkts[i]
        elif kind == "cut_before":
            pkts = pkts[:i]
        elif kind == "cut_after":
            pkts = pkts[:i + 1]
        elif kind == "drop_prefix":
            # the capture starts in the middle of the victim's connection: its packets up to and including this one are missing
            gone = set(vic[:vic.index(i) + 1])
            pkts = [q for j, q in enumerate(pkts) if j not in gone]
        else:
            q = p.copy()
            data = bytearray(q.payload)
            if not data:
                return pkts, keylog, "empty payload"
            x = fault.get("x", 0)
            if kind == "flip":
                data[(x // 8) % len(data)] ^= 1 << (x % 8)
            elif kind == "overwrite":
                off = x % len(data)
                n = 1 + (x // 7) % 24
                data[off:off + n] = rnd.randbytes(min(n, len(data) - off))
            elif kind == "header":
                # overwrite that hits a record / packet header with boundary values: the first bytes of the payload become a TLS record
                # header (every content type, also unknown ones) with length 0, 1 or 0xffff - or, for UDP, a long / short QUIC header stub
                hdrs = [bytes([t, 3, v, hi, lo]) for t in (0x14, 0x15, 0x16, 0x17, 0x18, 0x00, 0xFF) for v in (1, 3) for hi, lo in ((0, 0), (0, 1), (0xFF, 0xFF))]
                h = hdrs[x % len(hdrs)]
                if (x >> 8) & 1:
                    data = bytearray(h)                     # ... and nothing else in the segment
                else:
                    data[:5] = h
            elif kind == "shorten":
                data = data[:x % len(data)]
                if not data:
                    data = bytearray(p.payload[:1])
            q.payload = bytes(data)
            pkts[i] = q
        return pkts, keylog, f"{kind}@{i}({p.tag})"
    conn = b.conns[0]
    mine = [i for i, ln in enumerate(keylog) if conn.cr.hex() in ln]
    if kind == "keys_remove":
        mask = fault["mask"]
        drop = [mine[j] for j in range(len(mine)) if mask >> j & 1] or mine[:1]
        keylog = [ln for i, ln in enumerate(keylog) if i not in drop]
        return pkts, keylog, "removed " + ",".join(b.keylog[i].split(" ")[0] for i in drop)
    if kind == "keys_random":
        mask = fault["mask"] or 1
        for j, i in enumerate(mine):
            if mask >> j & 1:
                lab, cr, sec = keylog[i].split(" ")
                keylog[i] = f"{lab} {cr} {rnd.randbytes(len(sec) // 2).hex()}"
        return pkts, keylog, "random secrets"
    if kind == "foreign":
        # extra flows: plain HTTP towards a watched port / arbitrary UDP payloads, interleaved at free timestamps
        nspec = fault["noise"]
        if any(sh in ("short_cid", "long_cid") for sh in nspec.get("shapes", ())):
            cids = [c_.hex() for cn, cs in zip(b.conns, b.spec["conns"]) if cs["kind"] == "quic" for c_ in (cn.s_scid, cn.c_scid) if c_]
            nspec = dict(nspec, cids=cids)
        extra = scenario.noise_packets(99, nspec)
        used = {p.ts for p in pkts}
        for e in extra:
            j = 0 if fault.get("at") == "front" else rnd.randrange(len(pkts) + 1)
            base = pkts[j - 1].ts if j else pkts[0].ts - 10
            t = base + 1
            while t in used:
                t += 1
            used.add(t)
            e.ts = t
            pkts.insert(j, e)
        pkts.sort(key=lambda p: p.ts)
        return pkts, keylog, "foreign " + fault["noise"]["what"]
    return pkts, keylog, kind


def run_variant(b, pkts, keylog, name):
    saved = b.keylog
    b.keylog = keylog
    try:
        return oracle.run_e2e(b, engine.workdir(), pkts=pkts, name=name)
    finally:
        b.keylog = saved


def judge(spec, b, base_seqs, o, fault, note):
    """-> (sig | None, detail)"""
    fk = fault["kind"]
    vk = spec["conns"][0]["kind"]
    sig = oracle.base_failure(o)
    if sig:
        return f"{sig} [{vk} victim, {fk}]" if not sig.startswith("abort") else sig, f"{note}: " + (o.run.exc or "")[-300:]
    for ci in range(1, len(spec["conns"])):
        cs = spec["conns"][ci]
        if cs["kind"] == "noise":
            continue
        proto = 6 if cs["kind"] == "tls" else 17
        got = flow_seq(o, cs["ep"], proto)
        if fk in ("cut_before", "cut_after"):
            # truncation shortens every flow of the capture: a bystander must still export a prefix of its fault-free packets
            ok = got == base_seqs[ci][:len(got)]
        else:
            ok = got == base_seqs[ci]
        if not ok:
            return f"bystander {cs['kind']} flow changed by {fk} on {vk} victim", f"{note}: bystander #{ci}"
    if fk in REMOVING:
        cs = spec["conns"][0]
        conn = b.conns[0]
        if vk == "tls":
            key, c, s = oracle.ep_key(cs["ep"], 6)
            pk = o.flows.get(key)
            if pk:
                try:
                    stt = oracle.tcp_streams(pk)
                except oracle.BadOutput as e:
                    return f"victim export malformed [{fk}]", f"{note}: {e}"
                for srv in (False, True):
                    want = bytes(conn.truth[srv])
                    if not want.startswith(stt[srv]):
                        cl = oracle.classify(stt[srv], want) or "extra"
                        return f"victim tls export is not a prefix of its plaintext: {cl} [{fk}]", f"{note}: {'server' if srv else 'client'} got {len(stt[srv])} of {len(want)}"
        elif vk == "quic":
            got = [(srv, pl) for srv, pl, _ in oracle.quic_flow_list(o, cs["ep"])]
            want = conn.expected_export()
            if fk in ("cut_before", "cut_after"):
                ok = got == want[:len(got)]
            else:
                # datagram loss / shortening / a missing secret of one encryption level (e.g. only the early secret): other
                # datagrams stay legitimately decryptable -> order-preserving sub-list of true elements
                it = iter(want)
                ok = all(any(g == w for w in it) for g in got)
            if not ok:
                return f"victim quic export is not a prefix/sub-list of its true datagrams [{fk}]", f"{note}: got {len(got)} want {len(want)}"
        # foreign flows themselves must export nothing
        if fk == "foreign":
            fep = fault["noise"]["ep"]
            for proto in (6, 17):
                if any(p.payload for p in [x for x in (o.pkts or []) if x.proto == proto and
                                           {(x.sip, x.sport), (x.dip, x.dport)} & {oracle.ep_key(fep, proto)[1]}]):
                    return "foreign traffic is exported as if it were plaintext", note
    return None, ""


def _baseline(spec):
    b = scenario.build(spec)
    o0 = oracle.run_e2e(b, engine.workdir(), name="base")
    f0 = oracle.base_failure(o0)
    seqs = {}
    if f0 is None:
        for ci in range(1, len(spec["conns"])):
            cs = spec["conns"][ci]
            if cs["kind"] != "noise":
                seqs[ci] = flow_seq(o0, cs["ep"], 6 if cs["kind"] == "tls" else 17)
    return b, o0, f0, seqs


def _labels(spec, fault, b, o0):
    vk = spec["conns"][0]["kind"]
    by = sorted(c["kind"] for c in spec["conns"][1:])
    return ["victim:" + vk, "fault:" + fault["kind"], "bystanders:" + "+".join(by)] + (["foreign-traffic-on-a-connection's-client-port-number"] if fault.get("noise_port_of_conn") else [])


def _victim_exports(spec, b, o0):
    cs = spec["conns"][0]
    if cs["kind"] == "tls":
        return oracle.tls_flow_check(o0, b.conns[0], cs["ep"])[0] is None and (b.conns[0].truth[False] or b.conns[0].truth[True])
    return bool(oracle.quic_flow_list(o0, cs["ep"]))


def evaluate_single(spec):
    """one scenario, one fault (spec["fault"])"""
    fault = spec["fault"]
    if fault["kind"] == "unknown_suite":
        # the fault lives in the victim's ServerHello: baseline = same scenario without it
        base_spec = dict(spec)
        base_spec["conns"] = [dict(spec["conns"][0], sh_suite=None)] + spec["conns"][1:]
        b0, o0, f0, seqs = _baseline(base_spec)
        b = scenario.build(spec)
        pkts, keylog, note = b.pkts, b.keylog, f"ServerHello names suite {spec['conns'][0].get('sh_suite'):#06x}"
    else:
        b, o0, f0, seqs = _baseline(spec)
        b0 = b
        rnd = random.Random(spec.get("fseed", 0))
        pkts, keylog, note = apply_fault(b, fault, rnd)
    if f0 is not None:
        return {"sig": "baseline: " + f0, "detail": (o0.run.exc or "")[-300:], "nontrivial": False, "evals": 1}
    o = run_variant(b, pkts, keylog, "fault")
    sig, detail = judge(spec, b, seqs, o, fault, note)
    nontrivial = (bool(_victim_exports(spec, b0, o0)) or bool(spec["conns"][0].get("abort_after_ch"))) and any(v for v in seqs.values())
    return {"sig": sig, "detail": detail, "nontrivial": nontrivial, "labels": _labels(spec, fault, b, o0), "evals": 2,
            "key": engine.spec_hash([spec["conns"][0]["kind"], fault, [c["kind"] for c in spec["conns"]], spec["conns"][0].get("seed")])}


def evaluate_positions(spec):
    """one scenario, EVERY position-type fault at EVERY packet of the victim"""
    b, o0, f0, seqs = _baseline(spec)
    if f0 is not None:
        return {"sig": "baseline: " + f0, "detail": (o0.run.exc or "")[-300:], "nontrivial": False, "evals": 1}
    nvic = sum(1 for p in b.pkts if p.conn == 0)
    rnd = random.Random(spec.get("fseed", 0))
    evals = 1
    first = None
    labels = []
    for pos in range(nvic):
        for kind in POSITION_FAULTS:
            fault = {"kind": kind, "pos": pos, "x": rnd.randrange(1 << 16)}
            pkts, keylog, note = apply_fault(b, fault, rnd)
            if note in ("empty payload", "no victim packets"):
                continue
            o = run_variant(b, pkts, keylog, "fault")
            evals += 1
            sig, detail = judge(spec, b, seqs, o, fault, note)
            if sig and first is None:
                first = (sig, f"{detail} | fault {fault}")
        labels.append("positions-enumerated")
    nontrivial = bool(_victim_exports(spec, b, o0)) and any(v for v in seqs.values())
    r = {"sig": None, "detail": "", "nontrivial": nontrivial, "labels": ["victim:" + spec["conns"][0]["kind"], "all-positions"], "evals": evals}
    if first:
        r["sig"], r["detail"] = first
    return r


def evaluate_hello_bits(spec):
    """EVERY single-bit flip of the victim's ClientHello and ServerHello packets (the parsers run on attacker/garbage-controlled
    bytes there), bystander present"""
    b, o0, f0, seqs = _baseline(spec)
    if f0 is not None:
        return {"sig": "baseline: " + f0, "detail": (o0.run.exc or "")[-300:], "nontrivial": False, "evals": 1}
    vic = [i for i, p in enumerate(b.pkts) if p.conn == 0 and p.payload]
    targets = vic[:2]        # first client data packet (ClientHello) and first server data packet follow each other in "rec" mode
    first_srv = next((i for i in vic if b.pkts[i].srv), None)
    targets = sorted({vic[0], first_srv} - {None})
    evals, first = 1, None
    for i in targets:
        n = len(b.pkts[i].payload)
        for bit in range(spec.get("part", 0), 8 * n, spec.get("parts", 1)):
            pkts = list(b.pkts)
            q = pkts[i].copy()
            d = bytearray(q.payload)
            d[bit // 8] ^= 1 << (bit % 8)
            q.payload = bytes(d)
            pkts[i] = q
            o = run_variant(b, pkts, b.keylog, "fault")
            evals += 1
            sig, detail = judge(spec, b, seqs, o, {"kind": "flip"}, f"bit {bit} of packet {i} ({'server' if q.srv else 'client'} hello)")
            if sig and first is None:
                first = (sig, detail)
    r = {"sig": None, "detail": "", "nontrivial": any(v for v in seqs.values()), "labels": ["hello-bitflips"], "evals": evals,
         "key": engine.spec_hash(spec)}
    if first:
        r["sig"], r["detail"] = first
    return r


def evaluate_key_subsets(spec):
    """EVERY non-empty subset of the victim's key-log lines removed (<= 5 lines: <= 31 subsets), and every subset randomised"""
    b, o0, f0, seqs = _baseline(spec)
    if f0 is not None:
        return {"sig": "baseline: " + f0, "detail": (o0.run.exc or "")[-300:], "nontrivial": False, "evals": 1}
    conn = b.conns[0]
    nmine = sum(1 for ln in b.keylog if conn.cr.hex() in ln)
    rnd = random.Random(spec.get("fseed", 0))
    evals, first = 1, None
    for kind in ("keys_remove", "keys_random"):
        for mask in range(1, 1 << nmine):
            fault = {"kind": kind, "mask": mask}
            pkts, keylog, note = apply_fault(b, fault, rnd)
            o = run_variant(b, pkts, keylog, "fault")
            evals += 1
            sig, detail = judge(spec, b, seqs, o, fault, note)
            if sig and first is None:
                first = (sig, f"{detail} | {note}")
    r = {"sig": None, "detail": "", "nontrivial": bool(_victim_exports(spec, b, o0)) and any(v for v in seqs.values()),
         "labels": ["all-key-subsets", "victim:" + spec["conns"][0]["kind"]], "evals": evals, "key": engine.spec_hash(spec)}
    if first:
        r["sig"], r["detail"] = first
    return r


def key_subset_specs(tier):
    out = []
    data = lambda d, n: {"op": "data", "d": d, "pk": [{"fr": [["stream", 0, n, None, False, True, None]], "gap": 0, "pnl": 0}]}
    victims = []
    for i, code in enumerate([0x1301, 0x1302, 0x1303] if tier == "quick" else [0x1301, 0x1302, 0x1303, 0x1304, 0x1305]):
        victims.append({"kind": "tls", "seed": 5100 + i, "version": tlsref.TLS13, "suite": code, "history": [[0, 30, 0], [1, 60, 0], [0, 5, 0]], "cert_len": 40,
                        "hs_secrets": True, "tcp": {"mode": "rec", "syn": False}})
    for i, code in enumerate([0x1301, 0x1303] if tier == "quick" else [0x1301, 0x1302, 0x1303, 0x1304]):
        victims.append({"kind": "quic", "seed": 5200 + i, "suite": code, "early": i % 2, "steps": [data(0, 20), data(1, 30), data(0, 21), data(1, 31)]})
    victims.append({"kind": "tls", "seed": 5300, "version": tlsref.TLS12, "suite": 0xC02F, "history": [[0, 30, 0], [1, 60, 0]], "cert_len": 40,
                    "tcp": {"mode": "rec", "syn": False}})
    for i, v in enumerate(victims):
        v["ep"] = scenario.default_ep(0)
        by1 = {"kind": "tls", "seed": 5400 + i, "version": tlsref.TLS13, "suite": 0x1301, "history": [[0, 10, 0], [1, 20, 0]], "cert_len": 40,
               "ep": scenario.default_ep(1), "tcp": {"mode": "rec", "syn": False}}
        by2 = {"kind": "quic", "seed": 5500 + i, "suite": 0x1301, "steps": [data(0, 12), data(1, 13)], "ep": scenario.default_ep(2)}
        out.append({"conns": [v, by1, by2], "order": [0, 1, 2, 0], "tseed": 7, "fseed": i})
    return out


def aborted_handshake_specs():
    """undecryptable flows of another kind: a handshake that is aborted by a plaintext alert right after the ClientHello (warning or fatal,
    from either side, every version) next to healthy bystanders; fault = none, the flow itself is the damaged one"""
    out = []
    i = 0
    for ver, code in ((tlsref.SSL30, 0x000A), (tlsref.TLS10, 0x002F), (tlsref.TLS11, 0x0005), (tlsref.TLS12, 0xC02F), (tlsref.TLS13, 0x1301)):
        for who in (0, 1):
            for level, desc in ((1, 0), (2, 40), (1, 100), (2, 70)):
                victim = {"kind": "tls", "seed": 6100 + i, "version": ver, "suite": code, "abort_after_ch": [who, level, desc], "history": [],
                          "ep": scenario.default_ep(0), "tcp": {"mode": "rec", "syn": bool(i % 2)}}
                by = {"kind": "tls", "seed": 6200 + i, "version": tlsref.TLS12, "suite": 0xC02F, "history": [[0, 10, 0], [1, 20, 0]], "cert_len": 40,
                      "ep": scenario.default_ep(1), "tcp": {"mode": "rec", "syn": False}, "close": 3}
                out.append({"conns": [victim, by], "order": [0, 1, 1], "tseed": 3 + i, "fault": {"kind": "none"}})
                i += 1
    return out


def long_victim_specs():
    """a packet lost early in a LONG flow: 60 records (one per segment) in one direction behind the loss, so that whatever a reassembler
    does after waiting a long time for the missing bytes (give up, resynchronise, drop its buffer) is reached; CBC with explicit and
    chained IVs, RC4, AEAD, TLS 1.3"""
    out = []
    i = 0
    for ver, code in ((tlsref.TLS11, 0x002F), (tlsref.TLS12, 0x003C), (tlsref.TLS10, 0x0035), (tlsref.SSL30, 0x000A), (tlsref.TLS10, 0x0005),
                      (tlsref.TLS12, 0xC02F), (tlsref.TLS13, 0x1301)):
        for d in (0, 1):
            hist = [[d, 40, 0], [1 - d, 33, 0]] + [[d, 50 + (k % 7), 0] for k in range(60)] + [[1 - d, 9, 0]]
            victim = {"kind": "tls", "seed": 9100 + i, "version": ver, "suite": code, "history": hist, "cert_len": 40,
                      "ep": scenario.default_ep(0), "tcp": {"mode": "rec", "syn": bool(i % 2), "acks": bool(i % 3 == 0), "mss": 1400}}
            by = {"kind": "tls", "seed": 9200 + i, "version": tlsref.TLS12, "suite": 0xC02F, "history": [[0, 10, 0], [1, 20, 0]], "cert_len": 40,
                  "ep": scenario.default_ep(1), "tcp": {"mode": "rec", "syn": False}}
            # the victim's data packets of direction d: the loss hits the 1st, 2nd or 5th of the long run
            for nth in (0, 1, 4):
                out.append({"conns": [victim, by], "order": [0, 0, 0, 1], "tseed": 7 + i, "fault": {"kind": "delete_nth_data", "dir": d, "nth": nth}})
            i += 1
    return out


def key_update_victim_specs():
    """QUIC victims whose endpoints update their keys (RFC 9001 6), each side initiating once: with every position fault at every
    packet this damages, deletes or cuts off in particular the first packet of a new key phase - in front of a peer that already follows"""
    data = lambda d, n, sid=0: {"op": "data", "d": d, "pk": [{"fr": [["stream", sid, n, None, False, True, None]], "gap": 0, "pnl": 0}]}
    out = []
    for i, suite in enumerate((0x1301, 0x1303, 0x1302, 0x1304)):
        steps = [data(0, 30), data(1, 80), {"op": "ku", "d": i % 2}, data(i % 2, 31), data(1 - i % 2, 81), data(i % 2, 32), data(1 - i % 2, 82),
                 {"op": "ku", "d": 1 - i % 2}, data(1 - i % 2, 83), data(i % 2, 33), data(1 - i % 2, 84), data(i % 2, 34)]
        victim = {"kind": "quic", "seed": 9500 + i, "suite": suite, "steps": steps, "c_scid_len": [8, 0, 4, 20][i], "s_scid_len": [8, 8, 0, 5][i],
                  "ep": scenario.default_ep(0, v6=bool(i % 2))}
        by_t = {"kind": "tls", "seed": 9600 + i, "version": tlsref.TLS13 if i % 2 else tlsref.TLS12, "suite": 0x1301 if i % 2 else 0xC02F,
                "history": [[0, 10, 0], [1, 20, 0]], "cert_len": 40, "ep": scenario.default_ep(1), "tcp": {"mode": "rec", "syn": False}}
        by_q = {"kind": "quic", "seed": 9700 + i, "suite": 0x1301, "steps": [data(0, 11), data(1, 21), {"op": "ku", "d": 0}, data(0, 12), data(1, 22)],
                "ep": scenario.default_ep(2)}
        out.append({"conns": [victim, by_t, by_q], "order": [0, 1, 0, 2], "tseed": 3 + i, "fseed": 77 + i})
    return out


def foreign_on_ports_specs():
    """foreign UDP datagrams of every shape between OTHER hosts, on the port numbers the capture's connections use (each client port, each
    server port, as source or destination), captured before everything else or in between: what a tool learns from them (roles, ports,
    sessions) must not touch the connections"""
    data = lambda d, n: {"op": "data", "d": d, "pk": [{"fr": [["stream", 0, n, None, False, True, None]], "gap": 0, "pnl": 0}]}
    out = []
    i = 0
    for shapes in (["long"], ["short"], ["rand"], ["vn", "long_trunc", "tiny"]):
        for side in ("sport", "cport"):
            for which in (0, 1, 2):
                for at in ("front", "anywhere"):
                    victim = {"kind": "tls", "seed": 9800 + i, "version": tlsref.TLS12, "suite": 0xC02F, "history": [[0, 15, 0], [1, 32, 0]], "cert_len": 40,
                              "ep": scenario.default_ep(0), "tcp": {"mode": "rec", "syn": bool(i % 2)}}
                    by_t = {"kind": "tls", "seed": 9810 + i, "version": tlsref.TLS13, "suite": 0x1301, "history": [[0, 10, 0], [1, 20, 0]], "cert_len": 40,
                            "ep": scenario.default_ep(1), "tcp": {"mode": "rec", "syn": not bool(i % 2)}}
                    by_q = {"kind": "quic", "seed": 9820 + i, "suite": 0x1301, "steps": [data(0, 11), data(1, 21)], "ep": scenario.default_ep(2)}
                    conns = [victim, by_t, by_q]
                    tgt = conns[which]["ep"]
                    nep = dict(scenario.default_ep(9), **{side: tgt["cport"] if (i // 2) % 2 == 0 else tgt["sport"]})
                    out.append({"conns": conns, "order": [0, 1, 2], "tseed": 2 + i, "fseed": i,
                                "fault": {"kind": "foreign", "at": at, "noise_port_of_conn": True,
                                          "noise": {"kind": "noise", "what": "udp_struct", "seed": 50 + i, "n": 3, "ep": nep, "shapes": shapes}}})
                    i += 1
    return out


def foreign_with_cid_specs():
    """foreign datagrams (other hosts, other ports) that carry a connection ID of a QUIC connection of the capture - the client's or the
    server's, connection IDs of 1..8 bytes, one side possibly with a zero-length ID - in short- and long-header shape, between that
    connection's packets"""
    data = lambda d, n: {"op": "data", "d": d, "pk": [{"fr": [["stream", 0, n, None, False, True, None]], "gap": 0, "pnl": 0}]}
    out = []
    i = 0
    for cl, sl in ((0, 8), (0, 1), (8, 0), (4, 4), (1, 1)):
        for shapes in (["short_cid"], ["long_cid"], ["short_cid", "long_cid", "short_cid"]):
            for fseed in (1, 2, 3):
                victim = {"kind": "tls", "seed": 9900 + i, "version": tlsref.TLS12, "suite": 0xC02F, "history": [[0, 15, 0], [1, 32, 0]], "cert_len": 40,
                          "ep": scenario.default_ep(0), "tcp": {"mode": "rec", "syn": False}}
                by_q = {"kind": "quic", "seed": 9920 + i, "suite": [0x1301, 0x1303][i % 2], "c_scid_len": cl, "s_scid_len": sl,
                        "steps": [data(0, 11), data(1, 21), data(1, 22), data(0, 12), data(1, 23), data(1, 24), data(0, 13), data(1, 25)], "ep": scenario.default_ep(2)}
                out.append({"conns": [victim, by_q], "order": [0, 1, 1, 1], "tseed": 2 + i, "fseed": fseed,
                            "fault": {"kind": "foreign", "noise": {"kind": "noise", "what": "udp_struct", "seed": 60 + i, "n": 4,
                                                                    "ep": scenario.default_ep(9), "shapes": shapes}}})
                i += 1
    return out


def hello_specs(tier):
    out = []
    combos = [(0x002F, tlsref.TLS10), (0x009C, tlsref.TLS12), (0x1301, tlsref.TLS13), (0x000A, tlsref.SSL30)]
    if tier != "quick":
        combos += [(0x0005, tlsref.TLS11), (0xC02F, tlsref.TLS12), (0x1303, tlsref.TLS13), (0xC014, tlsref.TLS10)]
    for i, (code, ver) in enumerate(combos):
        victim = {"kind": "tls", "seed": 3100 + i, "version": ver, "suite": code, "history": [[0, 30, 0], [1, 60, 0]], "cert_len": 40,
                  "ep": scenario.default_ep(0), "tcp": {"mode": "rec", "syn": False}, "sid_len": [0, 32][i % 2]}
        by = {"kind": "tls", "seed": 3200 + i, "version": tlsref.TLS12, "suite": 0xC02F, "history": [[0, 10, 0], [1, 20, 0]], "cert_len": 40,
              "ep": scenario.default_ep(1), "tcp": {"mode": "rec", "syn": False}}
        for part in range(4):
            out.append({"conns": [victim, by], "order": [0, 1], "tseed": 5, "part": part, "parts": 4})
    return out


# ------------------------------------------------------------------ strategies
UNKNOWN_SUITES = [0x0000, 0x00FF, 0x1A1A, 0x5600, 0xC0FF, 0x1306, 0x019D, 0xFEFE, 0x0001, 0xC001]   # none is in TLExport's table (asserted)


@st.composite
def conn_any(draw, idx, small=True, kinds=("tls", "quic")):
    k = draw(st.sampled_from(list(kinds)))
    ep = strategies.endpoints(idx=idx)
    if k == "tls":
        c = draw(strategies.tls_conn(max_records=5 if small else 10, max_len=300 if small else 1500, ep=ep,
                                     delivery=strategies.tcp_delivery(modes=("rec", "flight", "cuts"), wrap=False)))
        if idx == 0 and draw(st.integers(0, 9)) == 0:
            c["abort_after_ch"] = [draw(st.integers(0, 1)), draw(st.integers(1, 2)), draw(st.sampled_from([0, 40, 70, 100]))]
        return c
    return draw(strategies.quic_conn(max_steps=5 if small else 10, ep=ep))


@st.composite
def base_scenario(draw, small=True):
    victim = draw(conn_any(0, small))
    n = draw(st.integers(1, 2 if small else 3))
    by = [draw(conn_any(i + 1, small)) for i in range(n)]
    for i, c in enumerate([victim] + by):
        c["seed"] = c["seed"] * 8 + i          # distinct connections have distinct randoms / connection IDs
    sc = {"conns": [victim] + by, "order": draw(st.lists(st.integers(0, 5), min_size=1, max_size=12)), "tseed": draw(st.integers(1, 1000)),
          "fseed": draw(st.integers(0, 1 << 30))}
    return sc


@st.composite
def noise_spec(draw):
    what = draw(st.sampled_from(["http", "udp_struct", "udp_struct", "udp_rand", "udp_quicish", "dns"]))
    sport = draw(st.sampled_from([443, 443, 44330, 8443, 53, 4433]))
    ep = draw(strategies.endpoints(idx=77, sports=(sport,)))
    return {"kind": "noise", "what": what, "seed": draw(st.integers(0, 1 << 30)), "n": draw(st.integers(1, 8)), "ep": ep,
            "shapes": draw(st.lists(st.sampled_from(["rand", "long", "short", "vn", "tiny", "long_trunc"]), min_size=1, max_size=6))}


@st.composite
def single_fault_scenario(draw):
    sc = draw(base_scenario())
    kind = draw(st.sampled_from(["keys_remove", "keys_remove", "keys_random", "unknown_suite", "foreign", "foreign", "delete", "flip", "overwrite",
                                 "shorten", "cut_after"]))
    f = {"kind": kind}
    if kind in POSITION_FAULTS:
        f["pos"] = draw(st.integers(0, 200))
        f["x"] = draw(st.integers(0, 1 << 16))
    elif kind in ("keys_remove", "keys_random"):
        f["mask"] = draw(st.integers(1, 31))
    elif kind == "unknown_suite":
        table = tlsref.load_suites()
        sc["conns"][0] = dict(sc["conns"][0], sh_suite=draw(st.sampled_from([u for u in UNKNOWN_SUITES if u not in table])))
    elif kind == "foreign":
        f["noise"] = draw(noise_spec())
        if draw(st.integers(0, 2)) == 0:
            # "to any port": also to / from a port number that a connection of the capture uses as its client port (other hosts)
            tgt = draw(st.sampled_from(sc["conns"]))["ep"]
            f["noise"]["ep"] = dict(f["noise"]["ep"], **{draw(st.sampled_from(["sport", "sport", "cport"])): tgt["cport"]})
            f["noise_port_of_conn"] = True
    sc["fault"] = f
    return sc


# ------------------------------------------------------------------ coverage-guided: UDP payloads into handle_quic_packet
def fuzz_stage(name, runs):
    def custom(ctx):
        sr = StageResult(name)
        deps = os.path.join(engine.VERIF, ".deps")
        if not os.path.isdir(os.path.join(deps, "atheris")):
            sr.extra["skipped"] = "atheris not installed (run setup.sh)"
            return sr
        work = tempfile.mkdtemp(dir=engine.work_root(), prefix="fuzzq-")
        env = dict(os.environ)
        env["PYTHONPATH"] = os.pathsep.join([deps, os.path.join(engine.VERIF, "lib"), engine.VERIF, runner.REPO])
        nproc = 4 if ctx["tier"] == "quick" else engine.NPROC
        procs = []
        for w in range(nproc):
            wd = os.path.join(work, f"w{w}")
            os.makedirs(os.path.join(wd, "c"))
            cmd = [sys.executable, os.path.join(engine.VERIF, "fuzz", "fuzz_quic_datagram.py"), f"-runs={runs // nproc}",
                   f"-seed={1 + (ctx['seed'] * 17 + w) % 100000}", "-max_len=1500", f"-artifact_prefix={wd}/", "-print_final_stats=1",
                   os.path.join(wd, "c")]
            e = dict(env)
            e["FUZZ_SEED_CORPUS"] = "1" if w % 2 == 0 else "0"
            procs.append((wd, subprocess.Popen(cmd, env=e, cwd=wd, stdout=open(os.path.join(wd, 'fuzz.log'), 'w'), stderr=subprocess.STDOUT, text=True)))
        execs = 0
        for wd, p in procs:
            p.wait()          # output goes to a file: a full pipe would block the fuzzers one after the other
            with open(os.path.join(wd, "fuzz.log")) as lf:
                out = lf.read()
            for ln in out.splitlines():
                if ln.startswith("stat::number_of_executed_units:"):
                    execs += int(ln.split(":")[-1])
            arts = [fn for fn in os.listdir(wd) if fn.startswith(("crash-", "timeout-", "oom-"))]
            for fn in arts:
                data = open(os.path.join(wd, fn), "rb").read()
                r = evaluate_datagrams({"hex": data.hex()})
                if r["sig"]:
                    sr.failures.append((r["sig"], r["detail"], {"hex": data.hex()}))
                else:
                    sr.extra["unreproduced_artifacts"] = sr.extra.get("unreproduced_artifacts", 0) + 1
            if p.returncode != 0 and not arts:
                raise RuntimeError("fuzzer failed without artifact:\n" + out[-2000:])
        sr.evaluations = execs
        sr.extra["fuzzer_execs"] = execs
        return sr
    return Stage(name, evaluate=evaluate_datagrams, custom=custom)


_FZ = {}


def fuzz_fixture():
    """a healthy QUIC bystander connection (fed first) whose buffered frames must not change, plus packet templates"""
    if not _FZ:
        import quicref
        c = quicref.QuicConn({"kind": "quic", "seed": 4242, "suite": 0x1301,
                              "steps": [{"op": "data", "d": 0, "pk": [{"fr": [["stream", 0, 40, None, False, True, None]], "gap": 0, "pnl": 0}]},
                                        {"op": "data", "d": 1, "pk": [{"fr": [["stream", 0, 90, None, False, True, None]], "gap": 0, "pnl": 0}]}]})
        _FZ["conn"] = c
        _FZ["ep"] = scenario.default_ep(3)
        _FZ["vep"] = scenario.default_ep(4)
    return _FZ


def feed_datagrams(payloads, greasy=False):
    """in-process: reset TLExport's module state, feed the bystander's datagrams, then the fuzzer's datagrams on another
    4-tuple (and finally on the bystander's own 4-tuple), through tlexport.main's UDP branch.  -> (sig, detail)"""
    import contextlib
    import io
    import traceback
    from tlexport.packet import Packet
    from tlexport import keylog_reader
    m = runner.tlx_main()
    fx = fuzz_fixture()
    runner.reset_state()
    keylog = keylog_reader.get_keys_from_string("\n".join(fx["conn"].keylog))
    qsess = []
    clock = [1_000_000]

    def feed(ep, srv, payload):
        clock[0] += 7
        cm, sm = bytes.fromhex(ep["cmac"]), bytes.fromhex(ep["smac"])
        a = (sm, cm, ep["sip"], ep["cip"], ep["sport"], ep["cport"]) if srv else (cm, sm, ep["cip"], ep["sip"], ep["cport"], ep["sport"])
        pk = Packet(netio.udp_frame(*a, payload), clock[0] / 1e6)
        if len(pk.tls_data) == 0:
            return
        if (pk.tls_data[0] & 0x40) >> 6 == 1 or greasy:      # -g: datagrams without the fixed bit are QUIC candidates too (RFC 9287)
            m.handle_quic_packet(pk, keylog, qsess, {})

    with contextlib.redirect_stdout(io.StringIO()):
        for srv, data, _ in fx["conn"].datagrams:
            feed(fx["ep"], srv, data)
        if not qsess:
            return "fixture: bystander session not created", ""
        by = qsess[0]
        snap = [(type(f).__name__, getattr(f, "stream_data", None)) for f in by.output_buffer]
        try:
            for i, pl in enumerate(payloads):
                feed(fx["vep"], bool(i & 1), pl)
            for i, pl in enumerate(payloads):
                feed(fx["ep"], bool(i & 1), pl)      # garbage addressed to the healthy flow's own 4-tuple
            out = []
            for s_ in qsess:
                out.extend(s_.build_output(False))
        except Exception as e:  # noqa
            return "abort:" + runner._sig_from_tb(type(e), e.__traceback__), traceback.format_exc()[-400:]
    now = [(type(f).__name__, getattr(f, "stream_data", None)) for f in by.output_buffer]
    if now[:len(snap)] != snap:
        return "bystander QUIC session's buffered frames changed", ""
    extra = [x for x in now[len(snap):] if x[0] == "StreamFrame" and x[1]]
    if extra:
        return "garbage datagram yields stream data in a healthy session", repr(extra[0])[:100]
    return None, ""


def split_payloads(data: bytes):
    """fuzzer bytes -> up to 4 datagram payloads (first byte of each chunk = length class)"""
    out = []
    i = 0
    while i < len(data) and len(out) < 4:
        n = data[i] * 6 + 1
        out.append(data[i + 1:i + 1 + n] or b"\x40")
        i += 1 + n
    return out or [b"\x40"]


def evaluate_datagrams(spec):
    """spec: {"hex": fuzzer bytes} or {"payloads": [hex, ...]}"""
    payloads = [bytes.fromhex(h) for h in spec["payloads"]] if "payloads" in spec else split_payloads(bytes.fromhex(spec["hex"]))
    payloads = [p for p in payloads if p] or [b"\x40"]
    raw = bytes.fromhex(spec["hex"]) if "hex" in spec else b""
    greasy = bool(spec["g"]) if "g" in spec else bool(raw and raw[-1] & 1)
    sig, detail = feed_datagrams(payloads, greasy)
    return {"sig": sig, "detail": detail, "nontrivial": len(payloads) >= 2, "labels": ["datagram-fuzz", "greasy" if greasy else "fixed-bit-rule"]}


def datagram_strategy(tier):
    shaped = st.builds(lambda seed, n, shapes: {"payloads": [p.payload.hex() for p in scenario.noise_packets(
        0, {"kind": "noise", "what": "udp_struct", "seed": seed, "n": n, "ep": scenario.default_ep(9), "shapes": shapes})]},
        st.integers(0, 1 << 30), st.integers(1, 4), st.lists(st.sampled_from(["rand", "long", "short", "vn", "tiny", "long_trunc"]), min_size=1, max_size=4))
    raw = st.lists(st.binary(min_size=1, max_size=200), min_size=1, max_size=4).map(lambda l: {"payloads": [x.hex() for x in l]})
    return st.builds(lambda d, g: dict(d, g=g), st.one_of(raw, shaped, shaped), st.booleans())


def stages(tier):
    quick = tier == "quick"
    return [
        Stage("all-positions", evaluate_positions, strategy=lambda t: base_scenario(small=True), examples=32 if quick else 600, shrink=False),
        Stage("key-update-victims-all-positions", evaluate_positions, specs=key_update_victim_specs(), chunksize=1),
        Stage("foreign-datagrams-on-the-connections-port-numbers", evaluate_single, specs=foreign_on_ports_specs()),
        Stage("foreign-datagrams-carrying-a-connection-id", evaluate_single, specs=foreign_with_cid_specs()),
        Stage("hello-bitflips", evaluate_hello_bits, specs=hello_specs(tier), chunksize=1),
        Stage("aborted-handshakes", evaluate_single, specs=aborted_handshake_specs()),
        Stage("loss-early-in-a-long-flow", evaluate_single, specs=long_victim_specs()),
        Stage("all-key-subsets", evaluate_key_subsets, specs=key_subset_specs(tier), chunksize=1),
        Stage("single-faults", evaluate_single, strategy=lambda t: single_fault_scenario(), examples=500 if quick else 30000),
        Stage("udp-datagrams", evaluate_datagrams, strategy=datagram_strategy, examples=2000 if quick else 100000),
        fuzz_stage("atheris-quic-datagrams", 8000 if quick else 6000000),
    ]


RULE = ("scenario = 1 victim (TLS any version/suite or QUIC) + 1-3 healthy bystanders; stage all-positions ENUMERATES, for each generated "
        "scenario, every fault in {delete, cut before, cut after, drop the victim's packets up to here (capture starts mid-connection), flip bit, overwrite, "
        "shorten} at EVERY packet of the victim; stage aborted-handshakes runs handshakes that a "
        "plaintext alert ends right after the ClientHello (every version, either side, warning / fatal); stage "
        "all-key-subsets removes / randomises EVERY non-empty subset of the key-log lines of TLS 1.3, TLS 1.2 and QUIC victims; stage "
        "single-faults draws one fault from those plus {remove any subset of the victim's key-log lines, random secrets, unknown suite id in "
        "ServerHello, plain HTTP on a watched port, arbitrary/QUIC-shaped UDP payloads}; oracle: exit 0 without traceback, every bystander "
        "flow's exported packets (headers, payloads, timestamps) identical to the fault-free run, and for information-removing faults the "
        "victim exports a prefix of its plaintext (TLS) / a prefix or order-preserving sub-list of its true datagrams (QUIC).  Non-trivial: the "
        "fault-free victim exports data and a bystander exports data; evaluations count TLExport runs")
ASSUMPTIONS = ["for a QUIC victim under datagram loss/shortening or with the secret of one encryption level missing an order-preserving sub-list of true datagrams is accepted instead of a prefix "
               "(later datagrams legitimately stay decryptable); this is weaker than the statement and recorded as such",
               "faults never shift the capture timestamps of other packets (foreign packets get free timestamps in between)",
               "for non-removing faults (random secrets, bit flips, overwrites) only 'no abort' and 'bystanders unchanged' are required"]

CHECK = Check(PID, "fault_enumeration", RULE, ASSUMPTIONS, stages)
