"""C05 - the export is independent of TCP segmentation, retransmission and reordering."""
import random

from hypothesis import strategies as st
from hypothesis.stateful import RuleBasedStateMachine, rule, invariant, initialize, precondition

import engine
import netio
import oracle
import runner  # noqa: F401
import scenario
import strategies
import tlsref
from engine import Stage, Check, machine_stage

PID = "C05"
EP = scenario.default_ep(0)


# ====================================================================== component level: Session's reassembly, no crypto
def _mk_packet(srv, seq, ack, payload, ts):
    from tlexport.packet import Packet
    cm, sm = bytes.fromhex(EP["cmac"]), bytes.fromhex(EP["smac"])
    if srv:
        fr = netio.tcp_frame(sm, cm, EP["sip"], EP["cip"], EP["sport"], EP["cport"], seq, ack, 0x18, payload)
    else:
        fr = netio.tcp_frame(cm, sm, EP["cip"], EP["sip"], EP["cport"], EP["sport"], seq, ack, 0x18, payload)
    return Packet(fr, ts / 1e6)


def make_streams(spec):
    """spec: {"seed", "recs": [[dir, type, len], ...], "cuts": [[...],[...]], "isn": [c, s]}
    -> per direction: stream bytes, record spans, segment list [(start, end)]"""
    rnd = random.Random(spec["seed"])
    streams = {False: bytearray(), True: bytearray()}
    recs = {False: [], True: []}
    first = True
    for d, t, ln in spec["recs"]:
        d = bool(d)
        if first:
            d = False     # a connection starts with a record of the client
            first = False
        body = rnd.randbytes(ln)
        start = len(streams[d])
        streams[d] += bytes([t]) + b"\x03\x03" + len(body).to_bytes(2, "big") + body
        recs[d].append((start, len(streams[d])))
    segs = {}
    for d in (False, True):
        total = len(streams[d])
        cuts = sorted({1 + c % (total - 1) for c in spec["cuts"][int(d)]} if total > 1 else set())
        if not d and recs[d]:
            cuts = sorted(set(cuts) | {recs[d][0][1]})    # the client's first record ends its first flight
        pts = [0] + [c for c in cuts if 0 < c < total] + [total]
        segs[d] = [(a, b) for a, b in zip(pts, pts[1:]) if b > a]
    return streams, recs, segs


def _isn(v, segs):
    """an ISN, or ["zero_at", k]: the ISN that puts the start of segment k (mod n) at sequence number 0 (wrap exactly on a
    segment boundary - the value 0 is special in careless code)"""
    if isinstance(v, (list, tuple)):
        a = segs[v[1] % len(segs)][0] if segs else 0
        return (-1 - a) & 0xFFFFFFFF
    return v & 0xFFFFFFFF


def run_session(spec, deliveries):
    """deliveries: [(dir, segment index)] in capture order.  Builds a fresh Session, feeds the packets, runs the reassembly with
    the record handler replaced by a recorder.  -> (handed {dir: [(bytes, [delivery indices])]}, exception | None)"""
    from tlexport.session import Session
    streams, recs, segs = make_streams(spec)
    isn = {False: _isn(spec["isn"][0], segs[False]), True: _isn(spec["isn"][1], segs[True])}
    got_contig = {False: 0, True: 0}
    got_iv = {False: [], True: []}
    pk = []
    for i, (d, si) in enumerate(deliveries):
        a, b = segs[d][si]
        seq = (isn[d] + 1 + a) & 0xFFFFFFFF
        ack = (isn[not d] + 1 + got_contig[not d]) & 0xFFFFFFFF      # cumulative ACK of what was received contiguously
        p = _mk_packet(d, seq, ack, bytes(streams[d][a:b]), 1_000_000 + i)
        p._verif_id = i
        pk.append(p)
        got_iv[d].append((a, b))
        c = got_contig[d]
        moved = True
        while moved:
            moved = False
            for x, y in got_iv[d]:
                if x <= c < y:
                    c = y
                    moved = True
        got_contig[d] = c
    handed = {False: [], True: []}
    if not pk:
        return handed, None, streams, recs, segs
    try:
        s = Session(pk[0], [443, 44330], [], {}, True, False)
        s.handle_tls_record = lambda record, isserver: handed[bool(isserver)].append(
            (bytes(record.raw), [getattr(m, "_verif_id", None) for m in record.metadata]))
        for p in pk[1:]:
            if s.matches_session(p):
                s.handle_packet(p)
        s.get_tls_records()
    except Exception as e:  # noqa
        return handed, f"{type(e).__name__}: {e}", streams, recs, segs
    return handed, None, streams, recs, segs


def check_component(spec, deliveries):
    """-> (sig | None, detail, complete: bool)"""
    handed, exc, streams, recs, segs = run_session(spec, deliveries)
    if exc:
        return "component: exception " + exc.split(":")[0], exc, False
    complete = True
    for d in (False, True):
        first_arrival = {}
        for i, (dd, si) in enumerate(deliveries):
            if dd == d and si not in first_arrival:
                first_arrival[si] = i
        all_delivered = len(first_arrival) == len(segs[d])
        complete &= all_delivered
        true = [bytes(streams[d][a:b]) for a, b in recs[d]]
        got = [h[0] for h in handed[d]]
        name = "server" if d else "client"
        if got != true[:len(got)]:
            n = next((i for i, (x, y) in enumerate(zip(got, true)) if x != y), min(len(got), len(true)))
            return f"component: records handed over are not a prefix of the sent records", f"{name}: record #{n} differs ({len(got)} handed, {len(true)} sent)", complete
        if all_delivered and len(got) != len(true):
            return "component: records missing although every byte was delivered", f"{name}: {len(got)} of {len(true)} records handed over", complete
        # every handed record's bytes must have been delivered, and its metadata = packets overlapping its byte range
        for (a, b), (_, meta) in zip(recs[d], handed[d]):
            want = sorted(first_arrival[si] for si, (x, y) in enumerate(segs[d]) if si in first_arrival and x < b and y > a)
            covered = sum(min(b, y) - max(a, x) for si, (x, y) in enumerate(segs[d]) if si in first_arrival and x < b and y > a)
            if covered < b - a:
                return "component: record handed over before all its bytes were delivered", f"{name} record [{a},{b})", complete
            if sorted(m for m in meta if m is not None) != want:
                return "component: record attributed to the wrong packets", f"{name} record [{a},{b}): metadata {sorted(meta)} want {want}", complete
    return None, "", complete


def evaluate_component(spec):
    """replay form: {"spec": stream spec, "deliveries": [[dir, seg], ...]}"""
    if "trace" in spec:
        spec = spec["trace"]
    sig, detail, complete = check_component(spec["spec"], [(bool(d), s) for d, s in spec["deliveries"]])
    return {"sig": sig, "detail": detail, "nontrivial": complete}


REC = st.tuples(st.integers(0, 1), st.sampled_from([0x17, 0x17, 0x17, 0x16, 0x14, 0x15]),
                st.one_of(st.integers(0, 40), st.sampled_from([0, 1, 5, 255, 256, 1400, 3000]))).map(list)
ISN = st.one_of(st.integers(0, 2 ** 32 - 1), st.sampled_from([0, 2 ** 32 - 1, 2 ** 32 - 2, 2 ** 32 - 6, 2 ** 32 - 40, 2 ** 31 - 3]),
                st.tuples(st.just("zero_at"), st.integers(0, 12)).map(list), st.tuples(st.just("zero_at"), st.integers(0, 12)).map(list))


@st.composite
def stream_spec(draw):
    recs = draw(st.lists(REC, min_size=1, max_size=10))
    return {"seed": draw(st.integers(0, 2 ** 32 - 1)), "recs": recs,
            "cuts": [draw(st.lists(st.integers(0, 5000), max_size=10)), draw(st.lists(st.integers(0, 5000), max_size=10))],
            "isn": [draw(ISN), draw(ISN)]}


def make_machine(acc):
    class Reassembly(RuleBasedStateMachine):
        def __init__(self):
            super().__init__()
            self.spec = None
            self.deliveries = []
            self.kinds = set()
            acc["runs"] += 1

        @initialize(spec=stream_spec())
        def setup(self, spec):
            self.spec = spec
            self.streams, self.recs, self.segs = make_streams(spec)
            self.pending = {d: list(range(len(self.segs[d]))) for d in (False, True)}
            self.done = {False: [], True: []}
            # the client's first flight (its first record) is delivered in order: nothing of the connection precedes it
            first_end = self.recs[False][0][1]
            while self.pending[False] and self.segs[False][self.pending[False][0]][0] < first_end:
                self._deliver(False, self.pending[False].pop(0))

        def _deliver(self, d, si):
            self.deliveries.append((d, si))
            self.done[d].append(si)
            acc["steps"] += 1
            acc["trace"] = {"spec": self.spec, "deliveries": [[int(x), y] for x, y in self.deliveries]}

        @precondition(lambda self: self.spec is not None and (self.pending[False] or self.pending[True]))
        @rule(d=st.booleans())
        def deliver_next(self, d):
            if not self.pending[d]:
                d = not d
            self._deliver(d, self.pending[d].pop(0))

        @precondition(lambda self: self.spec is not None and (len(self.pending[False]) > 1 or len(self.pending[True]) > 1))
        @rule(d=st.booleans(), k=st.integers(1, 4))
        def deliver_out_of_order(self, d, k):
            """a later segment is captured before earlier ones of its direction (displacement <= 4)"""
            if len(self.pending[d]) < 2:
                d = not d
            k = min(k, len(self.pending[d]) - 1)
            self._deliver(d, self.pending[d].pop(k))
            self.kinds.add("reorder")

        @precondition(lambda self: self.spec is not None and (self.done[False] or self.done[True]))
        @rule(d=st.booleans(), i=st.integers(0, 100))
        def retransmit(self, d, i):
            """exact duplicate of a segment captured earlier"""
            if not self.done[d]:
                d = not d
            self._deliver(d, self.done[d][i % len(self.done[d])])
            self.kinds.add("dup")

        @invariant()
        def records_are_the_sent_ones(self):
            if self.spec is None:
                return
            sig, detail, complete = check_component(self.spec, self.deliveries)
            assert sig is None, f"{sig} | {detail}"

        def teardown(self):
            if self.spec is None:
                return
            multi = any(sum(1 for x, y in self.segs[d] if x < b and y > a) >= 2 for d in (False, True) for a, b in self.recs[d]) or \
                any(sum(1 for a, b in self.recs[d] if x < b and y > a) >= 2 for d in (False, True) for x, y in self.segs[d])
            wrap = any((_isn(self.spec["isn"][int(d)], self.segs[d]) + 1 + len(self.streams[d])) > 0xFFFFFFFF for d in (False, True))
            if any(isinstance(v, list) for v in self.spec["isn"]):
                self.kinds.add("seq0-on-boundary")
            if wrap:
                self.kinds.add("wrap")
            if multi and self.kinds:
                acc["nontrivial"].add(engine.spec_hash(acc["trace"]))
                if len(acc["samples"]) < 2:
                    acc["samples"].append(acc["trace"])
            for k in self.kinds:
                acc["labels"]["component:" + k] += 1
            if not (self.pending[False] or self.pending[True]):
                acc["labels"]["component:fully-delivered"] += 1

    return Reassembly


# ---- retransmissions arbitrarily late: long streams of small segments, duplicates of early segments far behind their originals
def evaluate_late_dups(spec):
    """spec = {"spec": stream spec, "dups": [[dir, original index, distance], ...]}: every segment delivered in order (directions
    alternating in runs), plus exact duplicates inserted `distance` same-direction segments after their original"""
    sp = spec["spec"]
    streams, recs, segs = make_streams(sp)
    order = []
    i = {False: 0, True: 0}
    turn = False
    # client's first record first, then runs of up to 8 segments per direction
    while i[False] < len(segs[False]) or i[True] < len(segs[True]):
        d = turn if i[turn] < len(segs[turn]) else (not turn)
        for _ in range(8):
            if i[d] < len(segs[d]):
                order.append((d, i[d]))
                i[d] += 1
        turn = not d
    deliveries = list(order)
    far = 0
    for d, oi, dist in spec["dups"]:
        d = bool(d)
        if not segs[d]:
            continue
        oi %= len(segs[d])
        # position of the (oi + dist)-th segment of direction d in the delivery list
        pos = [k for k, (dd, si) in enumerate(deliveries) if dd == d and si >= min(oi + dist, len(segs[d]) - 1)]
        k = pos[0] + 1 if pos else len(deliveries)
        deliveries.insert(k, (d, oi))
        far = max(far, min(dist, len(segs[d]) - 1 - oi))
    sig, detail, complete = check_component(sp, deliveries)
    return {"sig": ("late-duplicate " + sig) if sig else None, "detail": detail, "nontrivial": far >= 8,
            "labels": ["late-dups", "distance:%s" % ("<8" if far < 8 else "8-64" if far <= 64 else ">64"),
                       "segments:%s" % ("<=64" if max(len(segs[False]), len(segs[True])) <= 64 else ">64")]}


@st.composite
def late_dup_spec(draw):
    nrec = draw(st.integers(4, 30))
    recs = [[draw(st.integers(0, 1)), 0x17, draw(st.integers(0, 60))] for _ in range(nrec)]
    # many small segments: a cut every few bytes
    step = draw(st.integers(3, 12))
    sp = {"seed": draw(st.integers(0, 2 ** 32 - 1)), "recs": recs, "cuts": [list(range(step - 1, 4000, step)), list(range(step, 4000, step + 1))],
          "isn": [draw(ISN), draw(ISN)]}
    dups = draw(st.lists(st.tuples(st.integers(0, 1), st.integers(0, 400), st.one_of(st.integers(1, 10), st.integers(1, 400))).map(list), min_size=1, max_size=4))
    return {"spec": sp, "dups": dups}


# ---- exhaustive cut sets for short streams (component level)
def exhaustive_cut_specs(n_streams, seed):
    rnd = random.Random(seed)
    out = []
    for k in range(n_streams):
        recs = [[0, 0x16, rnd.randrange(0, 4)]] + [[rnd.randrange(2), 0x17, rnd.choice([0, 0, 1, 2, 3])] for _ in range(rnd.randrange(1, 3))]
        out.append({"seed": rnd.randrange(2 ** 32), "recs": recs, "isn": [rnd.choice([5, 2 ** 32 - 4, 2 ** 32 - 9]), rnd.choice([77, 2 ** 32 - 3])]})
    return out


def evaluate_exhaustive(spec):
    """every subset of cut positions of the (short) client and server streams, delivered in order: 2^(n-1) subsets each"""
    base = dict(spec)
    base["cuts"] = [[], []]
    streams, recs, _ = make_streams(base)
    n = 0
    for d in (False, True):
        total = len(streams[d])
        if total < 2:
            continue
        other = not d
        for mask in range(1 << min(total - 1, 13)):
            cuts = [i for i in range(total - 1) if mask >> i & 1]
            sp = dict(base)
            # make_streams maps c -> 1 + c % (total-1): use c = position-1
            sp["cuts"] = [[], []]
            sp["cuts"][int(d)] = cuts
            _, _, segs = make_streams(sp)
            # in-order delivery, directions alternating by stream position of the records
            deliveries = [(False, i) for i in range(len(segs[False]))] + [(True, i) for i in range(len(segs[True]))]
            sig, detail, _ = check_component(sp, deliveries)
            n += 1
            if sig:
                return {"sig": "exhaustive-cuts " + sig, "detail": f"cuts {cuts} dir {d}: {detail}", "nontrivial": True, "subsets": n}
    return {"sig": None, "nontrivial": True, "labels": ["exhaustive-cut-subsets"] * 1, "subsets": n, "key": engine.spec_hash(spec)}


# ====================================================================== end to end
def evaluate_e2e(spec):
    """the re-scheduled capture exports exactly the ground truth, and the same streams as the in-order one-record-per-segment capture"""
    scenario.tls_packets.excluded = 0
    b = scenario.build(spec)
    excluded = scenario.tls_packets.excluded
    o = oracle.run_e2e(b, engine.workdir())
    cs = spec["conns"][0]
    conn, ep = b.conns[0], cs.get("ep") or scenario.default_ep(0)
    sig = oracle.base_failure(o)
    detail = (o.run.exc or "")[-300:] if sig else ""
    if sig is None:
        sig, detail = oracle.tls_flow_check(o, conn, ep)
    t = cs.get("tcp") or {}
    segs = b.segs[0]
    spans = scenario.record_spans(conn)
    multi = any(sum(1 for s in segs if s["srv"] == srv and s["off"] < e and s["off"] + len(s["data"]) > a) >= 2 for srv, a, e, _, _ in spans) or \
        any(sum(1 for srv, a, e, _, _ in spans if srv == s["srv"] and s["off"] < e and s["off"] + len(s["data"]) > a) >= 2 for s in segs)
    n_c = sum(len(d) for s_, d, _ in conn.events if not s_)
    n_s = sum(len(d) for s_, d, _ in conn.events if s_)
    aimed = isinstance(t.get("isn_c"), list) or isinstance(t.get("isn_s"), list)
    wrap = aimed or ((t.get("isn_c", 1000) & 0xFFFFFFFF) + 1 + n_c > 0xFFFFFFFF) or ((t.get("isn_s", 5000) & 0xFFFFFFFF) + 1 + n_s > 0xFFFFFFFF)
    labels = ["e2e:" + t.get("mode", "rec")]
    feats = []
    if t.get("dups"):
        feats.append("dup")
    if t.get("moves"):
        feats.append("move")
    if wrap:
        feats.append("wrap")
    if aimed:
        feats.append("seq0-on-boundary")
    labels += ["e2e:" + f for f in feats]
    return {"sig": ("e2e " + sig) if sig else None, "detail": detail, "nontrivial": bool(multi and (feats or t.get("mode") in ("cuts", "bytes"))),
            "labels": labels, "excluded": excluded}


def trig_first_record_move(spec):
    """a displaced segment belongs to the client's first record (ClientHello)"""
    t = spec["conns"][0].get("tcp") or {}
    return bool(t.get("allow_first_record_moves")) and bool(t.get("moves"))


TRIGGERS = {"move_inside_first_client_record": trig_first_record_move}

F05R_REPRO = {"conns": [{"kind": "tls", "seed": 0, "version": 769, "suite": 47, "etm": True, "sid_len": 0, "abbreviated": True, "grouping": 0,
                         "cert_len": 10, "tickets": 0, "ske": False, "sh_ext": "block", "extra_exts": [], "explicit_seq_nonce": False,
                         "history": [[0, 20, 0], [1, 30, 0]],
                         "ep": {"v6": False, "cmac": "000000000000", "smac": "91eb190c19a0", "sport": 443, "cport": 1024, "cip": "10.0.0.1", "sip": "192.168.0.1"},
                         "tcp": {"mode": "abs", "mss": 1400, "syn": False, "acks": False, "isn_c": 0, "isn_s": 0,
                                 "cuts": [[58], []], "dups": [], "moves": [[0, 1]],
                                 "allow_first_record_moves": True}}], "tseed": 0}


def e2e_strategy(tier):
    combos = [c for c in tlsref.all_combos() if c[0] in (0x002F, 0x0005, 0xC02F, 0x1301, 0x1303, 0xC014, 0x009C, 0x000A, 0xCCA8, 0xC0AC)]
    wrap_isn = st.one_of(st.integers(2 ** 32 - 6000, 2 ** 32 - 1), st.integers(0, 2 ** 32 - 1))

    @st.composite
    def delivery(draw):
        t = draw(strategies.tcp_delivery(modes=("rec", "cuts", "cuts", "flight"), dups=True, moves=True))
        if draw(st.booleans()):
            t["isn_c"], t["isn_s"] = draw(wrap_isn), draw(wrap_isn)
        elif draw(st.booleans()):
            # wrap exactly on a segment boundary: that segment gets sequence number 0
            t["isn_c"], t["isn_s"] = ["zero_at", draw(st.integers(0, 20))], ["zero_at", draw(st.integers(0, 20))]
        t["acks"] = draw(st.booleans())
        return t
    return strategies.single_tls_scenario(combos=combos, max_records=10, max_len=600 if tier == "quick" else 3000, delivery=delivery())


def zero_displaced_specs():
    """sequence number 0 exactly at the start of a segment (k-th of its direction) x a segment displaced by one or two places: every pairing
    of k and of the displaced segment for a fixed connection, so that the segment that starts at 0 is itself captured late, or early, or is
    the one a displaced segment is waiting for"""
    out = []
    hist = [[0, 30, 0], [0, 31, 0], [1, 50, 0], [1, 51, 0], [0, 32, 0], [0, 33, 0], [0, 34, 0], [1, 52, 0], [1, 53, 0], [1, 54, 0], [0, 35, 0]]
    j = 0
    for ver, suite in ((tlsref.TLS12, 0xC02F), (tlsref.TLS13, 0x1301)):
        for k in range(0, 9):
            for i in range(0, 22):
                for d in (1, 2):
                    out.append({"conns": [{"kind": "tls", "seed": 5200 + (j % 7), "version": ver, "suite": suite, "history": hist, "cert_len": 60,
                                           "tcp": {"mode": "rec", "syn": bool(j % 2), "acks": False, "mss": 1400, "isn_c": ["zero_at", k], "isn_s": ["zero_at", k],
                                                   "moves": [[i, d]], "ack_model": ["capture", "wire"][j % 2]}}], "tseed": 1 + j % 5})
                    j += 1
    return out


def stages(tier):
    quick = tier == "quick"
    return [
        machine_stage("reassembly-machine", make_machine, runs=4000 if quick else 200000, steps=30, evaluate=evaluate_component),
        Stage("exhaustive-cut-subsets", evaluate_exhaustive, specs=exhaustive_cut_specs(64 if quick else 2000, 11)),
        Stage("late-duplicates", evaluate_late_dups, strategy=lambda t: late_dup_spec(), examples=600 if quick else 20000),
        Stage("sequence-zero-at-a-displaced-segment", evaluate_e2e, specs=zero_displaced_specs()),
        Stage("e2e-schedules", evaluate_e2e, strategy=e2e_strategy, examples=600 if quick else 20000),
        Stage("probe-F05r", evaluate_e2e, specs=[F05R_REPRO], probe="F05r", serial=True),
    ]


RULE = ("component: a RuleBasedStateMachine draws a two-direction record stream, cut points and ISNs (incl. wrap past 2^32) and delivers "
        "segments to tlexport.session.Session in order / up to 4 places early / as exact duplicates; after EVERY step a fresh Session is fed the "
        "packets so far and the records handed to the record handler must be a prefix of the sent records (all of them once every byte is "
        "delivered), each attributed to exactly the packets overlapping its byte range; every subset of cut positions of short streams is "
        "enumerated; end-to-end: Hypothesis schedules (cuts, duplicates, causal displacements, wrapping ISNs) must export the ground truth.  "
        "Non-trivial: a record spans >= 2 segments or a segment holds >= 2 records, and the schedule has a duplicate / displaced segment / wrap "
        "(machine, e2e) - every enumerated stream (exhaustive stage)")
ASSUMPTIONS = ["reordering is causal: the client's first record (ClientHello) is captured before anything else of the connection and, end to end, "
               "handshake-phase segments are not moved across packets of the opposite direction",
               "retransmissions are exact duplicates (same sequence number and length)",
               "ACK numbers in generated packets are cumulative acknowledgements of what the capture has shown so far"]

CHECK = Check(PID, "exploration", RULE, ASSUMPTIONS, stages, triggers=TRIGGERS)
