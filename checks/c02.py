"""C02 - QUIC v1 STREAM data is exported exactly, datagram by datagram."""
import engine
import oracle
import scenario
import strategies
from engine import Stage, Check

PID = "C02"


def features(spec, conn):
    f = set(conn.features)
    cs = spec
    if 0 in (cs.get("c_scid_len", 8), cs.get("s_scid_len", 8)):
        f.add("zero_len_cid")
    if cs.get("offered") and cs["offered"][0] != cs["suite"]:
        f.add("suite_not_first")
    return f


def evaluate(spec):
    b = scenario.build(spec)
    o = oracle.run_e2e(b, engine.workdir())
    cs = spec["conns"][0]
    conn = b.conns[0]
    ep = cs.get("ep") or scenario.default_ep(0)
    sig = oracle.base_failure(o)
    detail = (o.run.exc or "")[-400:] if sig else ""
    if sig is None:
        sig, detail = oracle.quic_flow_check(o, conn, ep)
        if sig is None:
            key, c, s = oracle.ep_key(ep, 17)
            stray = [p for p in o.pkts if not ((p.sip, p.sport) == c or (p.dip, p.dport) == c)]
            if stray:
                sig, detail = "quic:extra-flow", repr(stray[0])
    want = conn.expected_export()
    per = [sum(1 for s_, _ in want if s_ == d) for d in (False, True)]
    f = features(cs, conn)
    labels = ["suite:%04x" % cs["suite"], "v6" if ep["v6"] else "v4"] + ["f:" + x for x in sorted(f)]
    labels.append("datagrams:%s" % ("0" if not want else "1-3" if len(want) <= 3 else "4+"))
    interesting = f & {"coalesced", "coalesced_app", "pn_gap", "pn_len>1", "key_update", "cid_switch", "retry", "0rtt", "crypto_split", "zero_len_cid"}
    return {"sig": sig, "detail": detail, "nontrivial": min(per) >= 2 and bool(interesting), "labels": labels, "excluded": conn.excluded}


def trig_cid_coincidence(spec):
    cs = spec["conns"][0]
    if not cs.get("allow_cid_coincidence"):
        return False
    import quicref
    return "cid_coincidence" in quicref.QuicConn(cs).features


def trig_early_suite_not_first(spec):
    cs = spec["conns"][0]
    return bool(cs.get("early")) and bool(cs.get("allow_early_suite_not_first")) and bool(cs.get("offered")) and cs["offered"][0] != cs["suite"]


TRIGGERS = {"early_data_and_selected_suite_not_offered_first": trig_early_suite_not_first}


def f10_probe_specs():
    out = []
    for i, (suite, first) in enumerate([(0x1301, 0x1302), (0x1302, 0x1301), (0x1303, 0x0A0A), (0x1304, 0x1301)]):
        out.append({"conns": [{"kind": "quic", "seed": 900 + i, "suite": suite, "offered": [first, suite], "early": 2, "allow_early_suite_not_first": True,
                               "steps": [{"op": "data", "d": 1, "pk": [{"fr": [["stream", 0, 50, None, False, True, None]], "gap": 0, "pnl": 0}]}]}], "tseed": 2})
    return out


def f31_probe_specs():
    """search (deterministically) for connections in which the coincidence of F31 occurs: server uses a zero-length CID, the
    client has issued a 1-byte CID, client sends many small packets"""
    import quicref
    out = []
    for seed in range(3000):
        steps = [{"op": "ncid", "d": 0, "len": 1}] + [{"op": "data", "d": 0, "pk": [{"fr": [["stream", 0, 5, None, False, True, None]], "gap": 0, "pnl": 0}]}
                                                      for _ in range(6)]
        cs = {"kind": "quic", "seed": seed, "suite": 0x1301, "s_scid_len": 0, "c_scid_len": 8, "steps": steps}
        if "cid_coincidence" in quicref.QuicConn(cs).features:
            out.append({"conns": [cs], "tseed": 1})
            if len(out) == 3:
                break
    return out


def grid_specs():
    """deterministic grid: every suite x {plain, retry, 0-RTT, split CH in order, split CH shuffled, key updates, CID switch, big pn gaps}"""
    out = []
    data = lambda d, n, gap=0, pnl=0: {"op": "data", "d": d, "pk": [{"fr": [["stream", 0, n, None, False, True, None], ["ack", 1, 2, 0, [], None, None]],
                                                                         "gap": gap, "pnl": pnl}]}
    base_steps = [data(0, 40), data(1, 300), data(0, 41), data(1, 301), data(1, 302), data(0, 42)]
    nst = lambda n, cut=0: {"op": "data", "d": 1, "pk": [{"fr": [["nst", n, cut, None], ["stream", 4, 50 + n, None, False, True, None]], "gap": 0, "pnl": 0}]}
    variants = {
        "plain": {},
        # post-handshake messages (session tickets, whole and split over two CRYPTO frames) before, between and after key updates of both sides
        "tickets_and_key_updates": {"steps": [data(0, 40), data(1, 300), nst(60), {"op": "ku", "d": 0}, data(0, 41), data(1, 301), nst(33, 10),
                                              {"op": "ku", "d": 1}, data(1, 302), data(0, 42), nst(80), {"op": "ku", "d": 0}, data(0, 43), data(1, 303),
                                              nst(0), nst(20, 3), data(1, 304), data(0, 44)]},
        "retry": {"retry": True},
        "early": {"early": 2},
        "early_with_other_frames": {"early": 2, "early_extra": 15},
        "split_ch": {"split_ch": 3},
        "split_ch_shuffled": {"split_ch": 3, "ch_shuffle": True},
        "split_server_flight": {"split_shs": 3, "hs_coalesce": False},
        "key_updates": {"steps": [data(0, 40), data(1, 300), {"op": "ku", "d": 0}, data(0, 41), {"op": "ku", "d": 1}, data(1, 301), data(0, 42),
                                  {"op": "ku", "d": 1}, data(1, 302), {"op": "ku", "d": 0}, data(0, 43), data(1, 303)]},
        "cid_switch_mixed_varint_widths": {"steps": [data(0, 40), data(1, 300), {"op": "ncid", "d": 1, "len": 8, "w": 2, "w2": 1}, {"op": "ncid", "d": 0, "len": 5, "w": 4, "w2": 2}, data(0, 41),
                                 {"op": "usecid", "d": 0, "i": 0}, data(0, 42), {"op": "usecid", "d": 1, "i": 0}, data(1, 301), data(1, 302), data(0, 43)]},
        "cid_switch": {"steps": [data(0, 40), data(1, 300), {"op": "ncid", "d": 1, "len": 8}, {"op": "ncid", "d": 0, "len": 5}, data(0, 41),
                                 {"op": "usecid", "d": 0, "i": 0}, data(0, 42), {"op": "usecid", "d": 1, "i": 0}, data(1, 301), data(1, 302), data(0, 43)]},
        "pn_gaps": {"steps": [data(0, 40, 3), data(1, 300, 200), data(0, 41, 70000), data(1, 301, 5000000), data(1, 302, 1, 4), data(0, 42, 0, 3)]},
        "same_truncated_pn_one_direction": {"steps": [data(1, 300), {"op": "ping", "d": 1, "gap": 128}, data(1, 301, 126), data(0, 40), {"op": "ping", "d": 0, "gap": 127},
                                                      data(0, 41, 127), data(1, 302), data(0, 42)]},   # server pn 1 / 130 / 257, client pn 0 / 128 / 256
        "same_pn_both_directions": {"steps": [data(0, 40), data(1, 300), data(0, 41), data(1, 301)]},
        "cid_lengths": {"dcid_len": 20, "c_scid_len": 4, "s_scid_len": 17},
        "suite_not_first": {"offered": "x"},
        "retry_long_token_0rtt": {"retry": True, "token_len": 80, "early": 2},
        "retry_after_pn_gap": {"retry": True, "hs_gaps": [300, 0, 0, 70000, 0]},
        "handshake_pn_gaps": {"hs_gaps": [5, 300, 0, 1 << 20], "hs_coalesce": False},
        "new_token_long_0rtt": {"token_len": 64, "early": 1},
    }
    i = 0
    for suite in (0x1301, 0x1302, 0x1303, 0x1304):
        for name, v in variants.items():
            for v6 in (False, True):
                spec = {"kind": "quic", "seed": 100 + i, "suite": suite, "steps": base_steps, "ep": scenario.default_ep(i % 100, v6=v6)}
                spec.update(v)
                if v.get("offered") == "x":
                    spec["offered"] = [0x0A0A, 0x1301 if suite != 0x1301 else 0x1302, suite]
                out.append({"conns": [spec], "tseed": 1 + i})
                i += 1
    return out


def stages(tier):
    quick = tier == "quick"
    return [
        Stage("grid", evaluate, specs=grid_specs()),
        Stage("histories", evaluate, strategy=lambda t: strategies.single_quic_scenario(max_steps=12 if t == "quick" else 40, zero_cid=True, early=True),
              examples=4000 if quick else 60000),
        Stage("cid-coincidence", evaluate, specs=f31_probe_specs()),
        Stage("probe-F10", evaluate, specs=f10_probe_specs(), probe="F10"),
    ]


RULE = ("one QUIC v1 connection per case built by a sender-side reference (lib/quicref.py): suite x offered-suite order x CID lengths 0..20 x "
        "Retry x 0-RTT x ClientHello split over CRYPTO frames/packets (in order / shuffled) x coalesced handshake x application history of "
        "datagrams (frame mixes around STREAM frames, several streams per packet, pn gaps up to 2^24, pn lengths 1..4, key updates by either "
        "side, NEW_CONNECTION_ID + switch); oracle: non-empty exported datagrams == (direction, concatenated STREAM data) of the data-carrying "
        "input datagrams, in order.  Non-trivial: >= 2 data datagrams per direction and one of {coalescing, pn gap/len>1, key update, CID "
        "switch, Retry, 0-RTT, split CRYPTO, zero-length CID}")
ASSUMPTIONS = ["senders are RFC-conformant: packet-number encodings decodable per RFC 9000 A.3 given the capture, key updates as RFC 9001 6 allows "
               "(peer follows before the next update), short-header packets end their datagram, client Initial datagrams >= 1200 bytes",
               "capture timestamps of distinct datagrams are distinct",
               "the exported server port is not judged here (C10)"]

CHECK = Check(PID, "exploration", RULE, ASSUMPTIONS, stages, triggers=TRIGGERS)
