"""C10 - server-port selection and port mapping behave as documented."""
from ipaddress import ip_address

from hypothesis import strategies as st

import engine
import oracle
import runner  # noqa: F401
import scenario
import strategies
import tlsref
from engine import Stage, Check

PID = "C10"
DEFAULT_PORTS = {443, 44330}
PORT_POOL = [443, 44330, 8443, 4433, 9443, 853, 993, 5061, 10443, 1443, 8080, 8081, 50000, 61000, 65535, 1]     # incl. the default target 8080 and a usual map target


def model(opts, sport):
    """documented behaviour -> (selected as TLS server port?, exported server port)"""
    selected = DEFAULT_PORTS | set(opts.get("p") or [])
    if opts.get("m") is None:
        out = sport
    else:
        pairs = opts["m"] or ["443:8080"]
        mp = {}
        for t in pairs:
            a, b_ = t.replace(",", "").split(":")
            mp[int(a)] = int(b_)
        out = mp.get(sport, 8080)
    return sport in selected, out


def evaluate(spec):
    b = scenario.build(spec)
    opts = spec["opts"]
    o = oracle.run_e2e(b, engine.workdir(), opts=opts)
    sig = oracle.base_failure(o)
    if sig:
        return {"sig": sig, "detail": (o.run.exc or o.run.stderr or "")[-300:], "nontrivial": True}
    detail = ""
    n_mapped = n_default = n_unselected = 0
    accounted = set()
    for ci, cs in enumerate(spec["conns"]):
        ep, conn = cs["ep"], b.conns[ci]
        sel, out_port = model(opts, ep["sport"])
        c = (ip_address(ep["cip"]).packed, ep["cport"])
        srv_ip = ip_address(ep["sip"]).packed
        # a client socket may be shared by connections to different servers / server ports: a connection's packets are those between its
        # client socket and its server address, minus those on the exported port of a sibling connection with the same addresses
        sib_ports = {model(opts, o_["ep"]["sport"])[1] for j, o_ in enumerate(spec["conns"]) if j != ci and o_["ep"]["cip"] == ep["cip"] and
                     o_["ep"]["cport"] == ep["cport"] and o_["ep"]["sip"] == ep["sip"] and (o_["kind"] == "tls") == (cs["kind"] == "tls")}
        proto = 6 if cs["kind"] == "tls" else 17
        mine = [p for p in o.pkts if p.proto == proto and (((p.sip, p.sport) == c and p.dip == srv_ip and p.dport not in sib_ports) or
                                                            ((p.dip, p.dport) == c and p.sip == srv_ip and p.sport not in sib_ports))]
        accounted |= {id(p) for p in mine}
        kind = cs["kind"]
        if kind == "tls" and not sel:
            n_unselected += 1
            if mine:
                sig, detail = "TCP flow to an unselected port is treated as TLS", f"server port {ep['sport']} opts {opts}"
                break
            continue
        if opts.get("m") is not None:
            if out_port == 8080 and ep["sport"] not in [int(t.replace(",", "").split(":")[0]) for t in (opts["m"] or ["443:8080"])]:
                n_default += 1
            else:
                n_mapped += 1
        # client port unchanged and server port as documented
        ports = {(p.sport if (p.sip, p.sport) != c else p.dport) for p in mine}
        if mine and ports != {out_port}:
            sig = f"{kind}: exported server port differs from the documented one ({'with' if opts.get('m') is not None else 'without'} -m)"
            detail = f"original {ep['sport']} exported {sorted(ports)} expected {out_port} opts {opts}"
            break
        if kind == "tls":
            s2, d2 = oracle.tls_flow_check(o, conn, ep, out_port)
        else:
            s2, d2 = oracle.quic_flow_check(o, conn, ep, out_port)
        if s2:
            sig, detail = f"{kind} flow to a selected port not exported correctly: {s2}", f"port {ep['sport']}: {d2} opts {opts}"
            break
    if sig is None:
        stray = [p for p in o.pkts if id(p) not in accounted]
        if stray:
            sig, detail = "packets of no known connection in the output", repr(stray[0])
    labels = ["m:" + ("absent" if opts.get("m") is None else "bare" if not opts["m"] else "pairs%d" % len(opts["m"])),
              "p:%d%s" % (len(opts.get("p") or []), "rep" if opts.get("p_repeat") else ""), "kinds:" + "+".join(sorted({c["kind"] for c in spec["conns"]}))]
    if opts.get("m") and any(c["ep"]["cport"] in [int(t.replace(",", "").split(":")[0]) for t in opts["m"]] for c in spec["conns"]):
        labels.append("client-port-has-a-pair-in-m")
    if opts.get("m") is not None and any(c["ep"]["cport"] == model(opts, c["ep"]["sport"])[1] for c in spec["conns"]):
        labels.append("client-port-equals-exported-server-port")
    if len({(c["ep"]["cip"], c["ep"]["cport"]) for c in spec["conns"]}) < len(spec["conns"]):
        labels.append("shared-client-socket")
    sports = {c["ep"]["sport"] for c in spec["conns"]}
    nontrivial = len(sports) >= 2 and (n_mapped >= 1 or opts.get("m") is None) and (n_default + n_unselected >= 1)
    return {"sig": sig, "detail": detail, "nontrivial": nontrivial, "labels": labels}


@st.composite
def spec_strategy(draw):
    n = draw(st.integers(1, 4))
    conns = []
    for i in range(n):
        k = draw(st.sampled_from(["tls", "tls", "quic"]))
        sport = draw(st.sampled_from(PORT_POOL))
        ep = draw(strategies.endpoints(idx=i, sports=(sport,)))
        # distinct client ports, never a server port; numerically below or above the server port
        ep["cport"] = draw(st.sampled_from([20000, 20000, 11000, 61100])) + 1000 * i + ep["cport"] % 1000
        if k == "tls":
            combos = [c for c in tlsref.all_combos() if c[0] in (0x002F, 0xC02F, 0x1301, 0x0005, 0x1303)]
            c = draw(strategies.tls_conn(combos=combos, max_records=4, max_len=200, ep=st.just(ep), shapes=False,
                                         delivery=strategies.tcp_delivery(modes=("rec",), wrap=False)))
        else:
            c = draw(strategies.quic_conn(max_steps=4, ep=st.just(ep), early=False))
        c["seed"] = c["seed"] * 8 + i
        conns.append(c)
    if n >= 2 and draw(st.integers(0, 2)) == 0:
        # several connections to the SAME server port (other clients), as every busy server has
        conns[1]["ep"] = dict(conns[1]["ep"], sport=conns[0]["ep"]["sport"])
        if n >= 3 and draw(st.booleans()):
            conns[2]["ep"] = dict(conns[2]["ep"], sport=conns[0]["ep"]["sport"])
    p = draw(st.lists(st.sampled_from(PORT_POOL), max_size=4))
    opts = {"p": p, "p_repeat": draw(st.booleans()) if p else False}
    share = n >= 2 and draw(st.integers(0, 3)) == 0
    mk = draw(st.sampled_from(["absent", "absent", "bare", "pairs", "pairs"]))
    if mk == "bare":
        opts["m"] = []
    elif mk == "pairs":
        srcs = draw(st.lists(st.sampled_from(PORT_POOL), min_size=1, max_size=4, unique=True))
        comma = draw(st.booleans())
        # targets: usual ones, the source port itself (identity pair), another source port of the list - an earlier or a LATER pair's (chains: only one pair applies to a port)
        opts["m"] = [f"{a}:{draw(st.sampled_from([8080, 8081, 8088, 80, 9000, 18443, 65535, 1, a, a, srcs[0], srcs[-1], srcs[-1]]))}" + ("," if comma and j < len(srcs) - 1 else "")
                     for j, a in enumerate(srcs)]
    else:
        opts["m"] = None
    if opts["m"] and draw(st.integers(0, 3)) == 0:
        # the client port of the last connection is a port that has a pair of its own in -m (never a selected server port): only server
        # ports are mapped
        src = int(opts["m"][0].replace(",", "").split(":")[0])
        if src not in DEFAULT_PORTS | set(p) and src not in {c["ep"]["cport"] for c in conns} and src != conns[-1]["ep"]["sport"]:
            conns[-1]["ep"] = dict(conns[-1]["ep"], cport=src)
    if opts["m"] is not None and draw(st.integers(0, 3)) == 0:
        # the client port of connection 0 equals the port its server port is exported as (never a selected server port itself)
        tgt = model(opts, conns[0]["ep"]["sport"])[1]
        if tgt not in DEFAULT_PORTS | set(p) and tgt not in {c["ep"]["cport"] for c in conns} and tgt > 0:
            conns[0]["ep"] = dict(conns[0]["ep"], cport=tgt)
    if share:
        # one client socket (address and port) talks to several server ports of one host, or to several hosts: the same client address
        # and port in connection 0 and connection 1, told apart by the server side only (kept on different exported ports when the host is the same)
        a, b_ = conns[0]["ep"], conns[1]["ep"]
        if a["v6"] == b_["v6"] and conns[0]["kind"] == conns[1]["kind"]:
            same_host = draw(st.booleans())
            nb = dict(b_, cip=a["cip"], cport=a["cport"], cmac=a["cmac"])
            if same_host:
                nb.update(sip=a["sip"], smac=a["smac"])
                if model(opts, nb["sport"])[1] == model(opts, a["sport"])[1] or nb["sport"] == a["sport"]:
                    nb.update(sip=b_["sip"], smac=b_["smac"])       # would be one conversation in the output: keep the hosts apart
            conns[1]["ep"] = nb
    return {"conns": conns, "order": draw(st.lists(st.integers(0, 4), min_size=1, max_size=6)), "tseed": draw(st.integers(1, 300)), "opts": opts}


def stages(tier):
    quick = tier == "quick"
    return [Stage("ports", evaluate, strategy=lambda t: spec_strategy(), examples=1500 if quick else 20000)]


RULE = ("1-4 connections (TLS and QUIC) to server ports from a pool of 10 (inside/outside the default set) x -p lists (one option with several "
        "ports or the README's repeated `-p a -p b` form) x -m absent / bare / 1-4 a:b pairs (with or without trailing commas); oracle = model of "
        "the documented behaviour: a TCP flow is exported iff its server port is in {443, 44330} u -p; exported server port = original without "
        "-m, else map.get(port, 8080); client port unchanged; QUIC flows likewise (QUIC is recognised independently of the port).  Non-trivial: "
        ">= 2 different server ports, one mapped (or -m absent) and one default-mapped or unselected")
ASSUMPTIONS = ["client ports are never in the server-port set (otherwise the tool's own rule cannot name the server)",
               "distinct connections use distinct client sockets, except that in a quarter of the multi-connection cases two connections of a kind share client address and port (different server port or host)", "QUIC traffic is recognised by its header, not by the port (the statement restricts "
               "only TCP traffic to selected ports)"]

CHECK = Check(PID, "exploration", RULE, ASSUMPTIONS, stages)
