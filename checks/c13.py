"""C13 - metadata export (-a) only adds packets; application data is unchanged."""
from hypothesis import strategies as st

import engine
import oracle
import runner  # noqa: F401
import scenario
import strategies
import tlsref
from engine import Stage, Check

PID = "C13"


def _payload_seq(o, ep, proto):
    key, c, s = oracle.ep_key(ep, proto)
    out = []
    for p in o.pkts or []:
        if p.proto != proto or not p.payload:
            continue
        if (p.sip, p.sport) == c and p.dip == s[0]:
            out.append((False, p.payload, p.ts))
        elif (p.dip, p.dport) == c and p.sip == s[0]:
            out.append((True, p.payload, p.ts))
    return out


def evaluate_tls(spec):
    b = scenario.build(spec)
    wd = engine.workdir()
    o0 = oracle.run_e2e(b, wd, name="plain")
    o1 = oracle.run_e2e(b, wd, opts={"a": True}, name="meta")
    cs, conn = spec["conns"][0], b.conns[0]
    ep = cs["ep"]
    for nm, o in (("without -a", o0), ("with -a", o1)):
        f = oracle.base_failure(o)
        if f is None:
            for key, pk in o.flows.items():
                if key[0] == 6:
                    try:
                        oracle.tcp_streams(pk)
                    except oracle.BadOutput as e:
                        f = "malformed-tcp:" + str(e).split(":")[0][:40]
        if f:
            return {"sig": f"{nm}: {f}", "detail": (o.run.exc or "")[-300:], "nontrivial": True, "evals": 2}
    a = _payload_seq(o0, ep, 6)
    m = _payload_seq(o1, ep, 6)
    sig, detail = None, ""
    # 1. the application-data packets keep the same payloads in the same order: greedy subsequence match
    j = 0
    extras = []
    for d, pl, ts in m:
        if j < len(a) and (d, pl) == a[j][:2]:
            j += 1
        else:
            extras.append((d, pl))
    if j < len(a):
        sig = "tls: application-data packets exported without -a are not a subsequence of the packets with -a"
        detail = f"matched {j} of {len(a)}; with -a {len(m)} packets"
    else:
        # 2. what was added is handshake / CCS / alert material of the same direction and nothing else
        material = {False: [], True: []}
        for srv, rec, tag in conn.events:
            if tag != "APP":
                material[srv].append(rec)
        for srv, msg in conn.fin_plain.items():
            material[srv].append(msg)
        if any(tag == "HREQ" for _, _, tag in conn.events):
            material[True].append(b"\x00\x00\x00\x00")       # the plaintext of an (encrypted) HelloRequest is handshake material of the server
        for d, pl in extras:
            if not any(pl in mat for mat in material[d]):
                sig = "tls: -a adds bytes that are neither handshake, alert nor change-cipher-spec material of that direction"
                detail = f"{'server' if d else 'client'} packet of {len(pl)} bytes: {pl[:24].hex()}"
                break
        if sig is None:
            # 3. ClientHello and ServerHello records verbatim
            cstream = b"".join(pl for d, pl, _ in m if not d)
            sstream = b"".join(pl for d, pl, _ in m if d)
            ch = conn.events[0][1]
            sh = next(rec for srv, rec, tag in conn.events if srv and tag.startswith("SH"))
            if ch not in cstream:
                sig, detail = "tls: ClientHello record not exported verbatim with -a", ""
            elif sh not in sstream:
                sig, detail = "tls: ServerHello record not exported verbatim with -a", ""
    labels = ["tls", tlsref.VERSION_NAMES[conn.v], "added:%s" % ("0" if not extras else "1" if len(extras) == 1 else "2+")]
    return {"sig": sig, "detail": detail, "nontrivial": bool(a) and len(extras) >= 2, "labels": labels, "evals": 2}


def evaluate_quic(spec):
    b = scenario.build(spec)
    wd = engine.workdir()
    o0 = oracle.run_e2e(b, wd, name="plain")
    o1 = oracle.run_e2e(b, wd, opts={"a": True}, name="meta")
    cs, conn = spec["conns"][0], b.conns[0]
    ep = cs["ep"]
    for nm, o in (("without -a", o0), ("with -a", o1)):
        f = oracle.base_failure(o)
        if f:
            return {"sig": f"{nm}: {f}", "detail": (o.run.exc or "")[-300:], "nontrivial": True, "evals": 2}
    s0, d0 = oracle.quic_flow_check(o0, conn, ep)
    if s0:
        return {"sig": "content without -a (C02): " + s0, "detail": d0, "nontrivial": False, "evals": 2}
    m = _payload_seq(o1, ep, 17)
    by_ts = {}
    for d, pl, ts in m:
        by_ts.setdefault(ts, []).append((d, pl))
    sig, detail = None, ""
    times = [p.ts for p in b.pkts if p.conn == 0]
    n_added = 0
    for (srv, _, chunks), parts, t in zip(conn.datagrams, conn.meta, times):
        want = b"".join(data for _, data in parts)
        got = by_ts.get(t, [])
        if not want:
            if got:
                sig, detail = "quic: -a exports a datagram for an input datagram without CRYPTO or STREAM data", f"ts {t}"
                break
            continue
        if len(got) != 1:
            sig, detail = "quic: with -a an input datagram with data does not map to exactly one output datagram", f"ts {t}: {len(got)} datagrams, {len(want)} bytes expected"
            break
        d, pl = got[0]
        if d != srv:
            sig, detail = "quic: with -a a datagram changes direction", f"ts {t}"
            break
        # every piece of stream data still appears, in order; what surrounds it is CRYPTO data of the same input datagram
        pos = 0
        for kind, data in parts:
            if kind == "s":
                i = pl.find(data, pos) if data else pos
                if i < 0:
                    sig, detail = "quic: with -a stream data of a datagram is missing or out of order", f"ts {t}"
                    break
                pos = i + len(data)
        if sig:
            break
        if pl != want:
            sig, detail = "quic: with -a the datagram is not STREAM data plus the CRYPTO data of the same input datagram, in frame order", \
                f"ts {t}: got {len(pl)} bytes want {len(want)}"
            break
        if any(k == "c" and dd for k, dd in parts):
            n_added += 1
    if sig is None and set(by_ts) - set(times):
        sig, detail = "quic: -a adds a datagram at a time no input datagram has", ""
    want_data = conn.expected_export()
    return {"sig": sig, "detail": detail, "nontrivial": bool(want_data) and n_added >= 2, "labels": ["quic", "suite:%04x" % cs["suite"]], "evals": 2}


def half_close_strategy(tier):
    """extension beyond the literal quantifier ("data after an alert" is not claimed by C01): a TLS 1.3 half-close - one side sends
    close_notify, the peer keeps sending.  TLExport ignores TLS 1.3 alerts, so the relation -a vs. no -a must hold here too"""
    from hypothesis import strategies as st
    combos = [c for c in tlsref.all_combos() if c[1] == tlsref.TLS13]

    def add(sc, who, k):
        cs = sc["conns"][0]
        h = [x for x in cs["history"] if x[0] in (0, 1)]
        k = min(k, len(h))
        other = 1 - who
        cs["history"] = h[:k] + [[3 + who, 0, 0]] + [[other, ln, p] for _, ln, p in h[k:]] + [[other, 9, 0]]
        return sc
    return st.builds(add, strategies.single_tls_scenario(combos=combos, max_records=6, max_len=300,
                                                         delivery=strategies.tcp_delivery(modes=("rec", "flight", "cuts"), wrap=False)),
                     st.integers(0, 1), st.integers(0, 6))


def with_deflate(sc, k):
    """a fifth of the connections below TLS 1.3 negotiate DEFLATE (not with RC4, whose export TLExport leaves compressed - DESIGN 8): what
    -a adds and what it leaves alone is judged between two runs of the same capture"""
    import tlsref
    c = sc["conns"][0]
    if k == 0 and c["version"] != 0x0304 and tlsref.load_suites()[c["suite"]].kind != "stream":
        sc = dict(sc, conns=[dict(c, sh_comp=True)])
    return sc


def stages(tier):
    quick = tier == "quick"
    deliv = strategies.tcp_delivery(modes=("rec", "flight", "cuts"), wrap=False)
    return [
        Stage("tls", evaluate_tls, strategy=lambda t: st.builds(with_deflate, strategies.single_tls_scenario(max_records=8, max_len=600, delivery=deliv),
                                                                 st.integers(0, 4)),
              examples=500 if quick else 12000),
        Stage("tls13-half-close", evaluate_tls, strategy=half_close_strategy, examples=200 if quick else 4000),
        Stage("quic", evaluate_quic, strategy=lambda t: strategies.single_quic_scenario(max_steps=8), examples=700 if quick else 12000),
    ]


RULE = ("C01 and C02 scenarios are exported without and with -a.  TLS: the payload-carrying packets without -a must be a subsequence (same "
        "direction, same payload, same order) of those with -a; every added packet must be a piece of a handshake / change-cipher-spec / alert "
        "record of the same direction as sent (or of the decrypted Finished), and the ClientHello and ServerHello records must appear verbatim.  "
        "QUIC: each input datagram that carried CRYPTO or STREAM data maps to exactly one output datagram of the same time and direction whose "
        "payload is that data in frame order (stream data in order, surrounded only by CRYPTO data of the same datagram).  Non-trivial: both runs "
        "export data and -a adds >= 2 packets / datagrams with CRYPTO data")
ASSUMPTIONS = ["stage tls13-half-close goes beyond the quantifier (data after an alert is not claimed by C01): it only requires the -a / no -a relation, "
               "which the unchanged code satisfies because TLS 1.3 alerts are ignored in both modes",
               "packets are compared by payload (a record re-split over k parts yields k packets in both runs alike)",
               "TLS 1.3 handshake messages travel in encrypted records and are not exported as metadata (nothing in the statement requires it)"]

CHECK = Check(PID, "exploration", RULE, ASSUMPTIONS, stages)
