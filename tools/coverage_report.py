#!/venv/bin/python
"""coverage_report.py <dir>: combine the per-worker coverage files written under VERIF_COV=<dir> and list, per file of
tlexport, the lines no generated case executed.  A measurement aid for aiming the generators; not a check."""
import sys, os, coverage
d = sys.argv[1]
cov = coverage.Coverage(data_file=os.path.join(d, ".coverage"), branch=True)
cov.combine([d], keep=False)
cov.save()
cov.report(show_missing=True, skip_empty=True)
