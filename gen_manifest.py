#!/venv/bin/python
"""Regenerates MANIFEST.json from the table below (kept in one place so that it stays valid and in step with the checks)."""
import json, os
HERE = os.path.dirname(os.path.abspath(__file__))
PY = "/venv/bin/python"
CLAIMED = {
 "C01": ("exploration", "4 C01", "round-trip against a reference TLS encoder (Hypothesis + complete suite/version sweep)",
         "Every table suite x valid version x EtM combination is enumerated completely and decrypted traffic is compared byte for byte with the plaintext a hand-written reference encoder protected; handshake shapes, record histories, segmentations and endpoints are explored with Hypothesis. Exploration, not proof: unexplored histories remain.",
         "trusted: cryptography's primitive ciphers, CPython, the RFC transcription in lib/tlsref.py; captures are causal and handshake messages unfragmented"),
 "C02": ("exploration", "4 C02", "round-trip against a reference QUIC v1 sender (Hypothesis histories + deterministic feature grid)",
         "Connections are built by an independent sender-side implementation of RFC 9000/9001 (all four suites, CID lengths 0..20, Retry, 0-RTT, CRYPTO splitting/reordering, coalescing, pn gaps and lengths, key updates, CID switches) and the exported datagram list is compared with the STREAM data each input datagram carried.",
         "trusted: lib/quicref.py (RFC transcription), cryptography primitives; open finding F10 (0-RTT, suite not offered first) is excluded by construction and probed"),
 "C03": ("fault_enumeration", "4 C03", "fault injection with complete enumeration of fault positions per generated scenario + Hypothesis single faults + atheris on the UDP entry point; metamorphic oracle against the fault-free run",
         "For every generated scenario all seven position faults are applied at every packet of the victim, all single-bit flips of ClientHello/ServerHello are enumerated, key-log, suite and foreign-traffic faults are drawn; bystander exports must be identical to the fault-free run and the victim may only lose a suffix. Scenario space itself is sampled.",
         "trusted: reference encoders; QUIC victims may export an order-preserving sub-list instead of a prefix (documented weakening)"),
 "C04": ("exploration", "4 C04", "metamorphic testing: combined capture vs. per-connection solo captures over generated order-preserving merges (Hypothesis)",
         "2-10 TLS/QUIC connections in adversarial endpoint topologies are interleaved by a drawn order-preserving merge with a shuffled common key log; each connection's packets in the combined export must equal its solo export byte for byte and time for time, and nothing else may be exported.",
         "trusted: reference encoders; the set of merges is sampled, not enumerated"),
 "C05": ("exploration", "4 C05", "rule-based state machine against a reassembly model (component) + exhaustive cut subsets + Hypothesis schedules end to end",
         "A RuleBasedStateMachine delivers segments of a drawn two-direction record stream in order, early (displacement <= 4) or duplicated, with ISNs incl. wrap, and after every step compares the records Session hands to its record handler with the model; all cut subsets of short streams are enumerated; end-to-end schedules must export the ground truth.",
         "trusted: reassembly model in checks/c05.py; domain: causal reordering, exact duplicates; open finding F05r (reordering inside the ClientHello) excluded by construction and probed"),
 "C06": ("exploration", "4 C06", "validity predicate over generated captures and options: strict pcapng reader, frame parser and TCP reassembler; complete (record length x carrying packets) grid",
         "No expected bytes are needed: the output of every generated capture (decryptable, undecryptable, foreign traffic, empty) under every option mix must satisfy the strict reader/parser/reassembler; the n x k splitting grid is enumerated completely.",
         "trusted: the validity predicate in lib/netio.py and lib/oracle.py"),
 "C07": ("exploration", "4 C07", "provenance model over generated scenarios: every exported segment/datagram is traced to the input packets that carried its record (Hypothesis)",
         "Endpoints, orientation, IP version, client port and microsecond timestamps of every exported packet are checked against a model that knows which input packets overlap which record; the synthetic handshake's time is checked too.",
         "trusted: lib/scenario record/packet spans; membership semantics for timestamps"),
 "C08": ("fault_enumeration", "4 C08", "crash-point enumeration: every cut position of every generated capture, metamorphic prefix chain against ground truth",
         "For each generated TLS/QUIC capture all N+1 prefixes are exported; exports must form a chain of prefixes ending in the ground truth. The cut positions are enumerated completely, the captures are sampled.",
         "trusted: reference encoders and strict reassembler"),
 "C09": ("exploration", "4 C09", "metamorphic testing: output bytes under generated key-delivery variants vs. the canonical key log (Hypothesis; subprocess runs for the no -s form)",
         "Each generated scenario is exported with its canonical key log and with a drawn delivery variant (order, line ends, decorations, hex case, file / DSB / both / split / partitioned); the output files must be byte-identical.",
         "trusted: lib/scenario.keylog_text (decorations), lib/netio DSB writer"),
 "C10": ("exploration", "4 C10", "model-based testing against a reference model of the documented port rules (Hypothesis over -p / -m forms and server ports)",
         "A small executable model of the README's port rules predicts, for generated connections and option sets, which flows are exported and with which ports; the real output must agree, and selected flows must still carry the ground-truth plaintext.",
         "trusted: the model in checks/c10.py (from README and property text)"),
 "C11": ("exploration", "4 C11", "differential testing of the checksum routines against a reference fold with boundary-steered sums + metamorphic end-to-end relation (-c vs. filtered capture)",
         "Sums are steered exactly onto the carry/fold boundaries (free TCP window/urgent fields, free UDP payload word), verdicts are compared with the receiver rule for IPv4/IPv6, odd/even lengths; end to end the export with -c must equal the export of the capture without the corrupted packets.",
         "trusted: lib/netio.csum16 / unfolded_sum; 'bad' is defined by the receiver's verification"),
 "C12": ("exploration", "4 C12", "metamorphic testing: same packets in generated container variants vs. the reference container (Hypothesis)",
         "The same scenario with exact rational capture times is written as pcapng LE/BE with every if_tsresol class, offsets and unrelated blocks, and as legacy pcap (micro/nanosecond, LE/BE); exported packets and timestamps must agree with the reference container, byte-identically when the times are whole microseconds.",
         "trusted: lib/netio pcap/pcapng writers"),
 "C13": ("exploration", "4 C13", "metamorphic testing: export with -a vs. without (subsequence relation for TLS, exact frame-order model for QUIC)",
         "Every generated TLS/QUIC scenario is exported twice; without-a packets must be a subsequence of with-a packets, additions must be handshake/CCS/alert material of the same direction, ClientHello/ServerHello verbatim; QUIC datagrams must equal CRYPTO+STREAM data in frame order.",
         "trusted: reference encoders (they know every record and frame they produced)"),
 "C14": ("exploration", "4 C14", "exhaustive enumeration of all 65536 code points against an independent registry copy and name parser",
         "The input domain is finite and is enumerated completely (both resolvers), so for this tree the result is exact relative to the registry copy and the name grammar; it is still a test of the resolvers, not a proof about the registry.",
         "trusted: data/iana_tls_cipher_suites.json (provenance data/build_registry.py) and the token grammar of lib/tlsref.Suite"),
 "C15": ("exploration", "4 C15", "differential testing against reference key schedules: complete suite/version sweep through the real CLI path, QUIC grid + histories with per-packet key observation, function-level PRF tests",
         "Installed key material is read from the decryptor objects after a real run for every table combination and compared with hashlib/hmac reference schedules; for QUIC every generation reached and the key actually used for every packet are compared.",
         "trusted: hashlib/hmac, RFC transcriptions in lib/tlsref.py and lib/quicref.py"),
 "C16": ("exploration", "4 C16", "differential testing against the RFC 9000 A.3 pseudo-code: boundary enumeration + Hypothesis + rule-based state machine",
         "Every window / half-window / 2^62 boundary at every magnitude 2^0..2^62 and all four lengths is enumerated, the rest sampled; histories with gaps and reordering are generated by a RuleBasedStateMachine with an RFC model per (space, direction). 2^62 x 4 x 2^32 cannot be enumerated, so this is exploration aimed at the decision boundaries.",
         "trusted: the transcription of RFC 9000 A.3 in lib/quicref.rfc_decode_pn"),
 "C17": ("exploration", "4 C17", "round-trip against a reference frame encoder (Hypothesis), exhaustive short strings, coverage-guided fuzzing (atheris) with a step-count termination oracle",
         "Well-formed sequences of every frame type and varint width are round-tripped; termination on arbitrary bytes is decided by a deterministic step count, for all strings up to 2 bytes exhaustively and by random, mutation-based and coverage-guided search up to 1500 bytes.",
         "trusted: lib/quicref frame encoders (RFC 9000 19, RFC 9221); step bound 60*len+200 Python calls"),
 "C18": ("exploration", "4 C18", "metamorphic repetition: sha256 of the output across fresh processes (hash seeds, cwd, environment) and across un-reset in-process runs",
         "Each generated scenario (emphasis on QUIC with several, prefix-related CIDs and several sessions) is exported by 4 fresh processes with different PYTHONHASHSEED / cwd / environment and by repeated run() calls in one process (A, A, B, A); all outputs for the same input must be byte-identical.",
         "trusted: nothing beyond the runner; a finite sample of hash seeds"),
}
ALL = ["C%02d" % i for i in range(1, 19)]
def main():
    checks = []
    for pid in ALL:
        if pid not in CLAIMED:
            continue
        cat, ref, tech, text, note = CLAIMED[pid]
        checks.append({"property_id": pid, "quick_cmd": f"{PY} run_check.py {pid} --tier quick", "thorough_cmd": f"{PY} run_check.py {pid} --tier thorough",
                       "evidence_file": f"evidence/{pid}.json", "replay_cmd_template": f"{PY} run_check.py {pid} --replay {{path}}", "engine": "pbt-engine",
                       "level_claimed": {"category": cat, "text": text, "design_ref": "DESIGN.md section " + ref}, "level_note": note, "technique": tech})
    m = {"version": 1,
         "setup_cmd": "sh setup.sh",
         "hooks": {"guard": "FKIE_CAD_TLEXPORT_VERIF", "enable": "no hooks exist: checks import /repo's working tree directly (sys.path) and observe it from outside; the variable is set by lib/runner.py but nothing in /repo reads it",
                   "baseline_off_cmd": "cd /repo && /venv/bin/python -m pytest -q -p no:cacheprovider --timeout=900", "source_commits": [], "add_only": True},
         "engines": [{"name": "pbt-engine", "path": "lib/engine.py", "serves_properties": sorted(CLAIMED),
                      "kind_free_text": "Hypothesis-driven generation in 16 forked workers + complete enumerations, collect-then-shrink bucketing, JSON replay files; atheris targets under fuzz/"}],
         "checks": checks,
         "notes": "All checks run TLExport from /repo's working tree (no build step). Exit 2 = harness error. known_findings.json lists open findings and fixed defects.",
         "not_applicable": [{"property_id": p, "reason": "check not built yet in this round (planned, see DESIGN.md section 4); property-based testing applies"} for p in ALL if p not in CLAIMED]}
    with open(os.path.join(HERE, "MANIFEST.json"), "w") as f:
        json.dump(m, f, indent=1)
if __name__ == "__main__":
    main()
