#!/venv/bin/python
"""Regenerates MANIFEST.json from the table below (kept in one place so that it stays valid and in step with the checks)."""
import json, os
HERE = os.path.dirname(os.path.abspath(__file__))
PY = "/venv/bin/python"
CLAIMED = {
 "C01": ("exploration", "4 C01", "round-trip against a reference TLS encoder (Hypothesis + complete suite/version sweep)",
         "Every table suite x valid version x EtM combination is enumerated completely and decrypted traffic is compared byte for byte with the plaintext a hand-written reference encoder protected; handshake shapes, record histories, segmentations and endpoints are explored with Hypothesis. Exploration, not proof: unexplored histories remain.",
         "trusted: cryptography's primitive ciphers, CPython, the RFC transcription in lib/tlsref.py; captures are causal and handshake messages unfragmented"),
}
ALL = ["C%02d" % i for i in range(1, 19)]
def main():
    checks = []
    for pid in ALL:
        if pid not in CLAIMED:
            continue
        cat, ref, tech, text, note = CLAIMED[pid]
        checks.append({"property_id": pid, "quick_cmd": f"{PY} run_check.py {pid} --tier quick", "thorough_cmd": f"{PY} run_check.py {pid} --tier thorough",
                       "evidence_file": f"evidence/{pid}.json", "replay_cmd_template": f"{PY} run_check.py {pid} --replay {{path}}", "engine": "pbt-engine",
                       "level_claimed": {"category": cat, "text": text, "design_ref": "DESIGN.md section " + ref}, "level_note": note, "technique": tech})
    m = {"version": 1,
         "setup_cmd": "sh setup.sh",
         "hooks": {"guard": "FKIE_CAD_TLEXPORT_VERIF", "enable": "no hooks exist: checks import /repo's working tree directly (sys.path) and observe it from outside; the variable is set by lib/runner.py but nothing in /repo reads it",
                   "baseline_off_cmd": "cd /repo && /venv/bin/python -m pytest -q -p no:cacheprovider --timeout=900", "source_commits": [], "add_only": True},
         "engines": [{"name": "pbt-engine", "path": "lib/engine.py", "serves_properties": sorted(CLAIMED),
                      "kind_free_text": "Hypothesis-driven generation in 16 forked workers + complete enumerations, collect-then-shrink bucketing, JSON replay files; atheris targets under fuzz/"}],
         "checks": checks,
         "notes": "All checks run TLExport from /repo's working tree (no build step). Exit 2 = harness error. known_findings.json lists open findings and fixed defects.",
         "not_applicable": [{"property_id": p, "reason": "check not built yet in this round (planned, see DESIGN.md section 4); property-based testing applies"} for p in ALL if p not in CLAIMED]}
    with open(os.path.join(HERE, "MANIFEST.json"), "w") as f:
        json.dump(m, f, indent=1)
if __name__ == "__main__":
    main()
