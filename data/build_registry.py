#!/venv/bin/python
"""Provenance of data/iana_tls_cipher_suites.json (run once at authoring time; the checks only read the JSON).

The registry copy is compiled from two independently maintained tables that ship with the sandbox's site-packages
(scapy.layers.tls.crypto.suites, dpkt.ssl_ciphersuites) plus the code points of RFC 8442 (0xD001-0xD005), RFC 8492
(0xC0B0-0xC0B3), RFC 8446 (0x1301-0x1305) and RFC 7905 (0xCCA8-0xCCAE) typed in from the RFC texts.  Where both tables
know a code point they must agree on the name (after normalising separators); 0xC0AA/0xC0AB are spelled PSK_DHE in the
IANA registry (RFC 6655) and DHE_PSK by both libraries: the registry spelling is stored, the alias is listed."""
import json, re, os, sys
import scapy.layers.tls.crypto.suites as S
import dpkt.ssl_ciphersuites as D

reg = {}
for name in dir(S):
    c = getattr(S, name)
    if isinstance(c, type) and hasattr(c, "val") and name.startswith(("TLS_", "SSL_")) and isinstance(c.val, int):
        reg.setdefault(c.val, set()).add(name)
dp = {}
for cs in D.CIPHERSUITES:
    dp[cs.code] = cs.name
MANUAL = {
    0x1301: "TLS_AES_128_GCM_SHA256", 0x1302: "TLS_AES_256_GCM_SHA384", 0x1303: "TLS_CHACHA20_POLY1305_SHA256",
    0x1304: "TLS_AES_128_CCM_SHA256", 0x1305: "TLS_AES_128_CCM_8_SHA256",
    0xCCA8: "TLS_ECDHE_RSA_WITH_CHACHA20_POLY1305_SHA256", 0xCCA9: "TLS_ECDHE_ECDSA_WITH_CHACHA20_POLY1305_SHA256",
    0xCCAA: "TLS_DHE_RSA_WITH_CHACHA20_POLY1305_SHA256", 0xCCAB: "TLS_PSK_WITH_CHACHA20_POLY1305_SHA256",
    0xCCAC: "TLS_ECDHE_PSK_WITH_CHACHA20_POLY1305_SHA256", 0xCCAD: "TLS_DHE_PSK_WITH_CHACHA20_POLY1305_SHA256",
    0xCCAE: "TLS_RSA_PSK_WITH_CHACHA20_POLY1305_SHA256",
    0xD001: "TLS_ECDHE_PSK_WITH_AES_128_GCM_SHA256", 0xD002: "TLS_ECDHE_PSK_WITH_AES_256_GCM_SHA384",
    0xD003: "TLS_ECDHE_PSK_WITH_AES_128_CCM_8_SHA256", 0xD005: "TLS_ECDHE_PSK_WITH_AES_128_CCM_SHA256",
    0xC0B0: "TLS_ECCPWD_WITH_AES_128_GCM_SHA256", 0xC0B1: "TLS_ECCPWD_WITH_AES_256_GCM_SHA384",
    0xC0B2: "TLS_ECCPWD_WITH_AES_128_CCM_SHA256", 0xC0B3: "TLS_ECCPWD_WITH_AES_256_CCM_SHA384",
    0xC0AA: "TLS_PSK_DHE_WITH_AES_128_CCM_8", 0xC0AB: "TLS_PSK_DHE_WITH_AES_256_CCM_8",
    # registrations newer than both libraries' tables (added after S-C14-r23 showed that the copy lacked them): RFC 8998, RFC 9150,
    # RFC 9189, RFC 9367, draft-irtf-cfrg-aegis-aead
    0x00C6: "TLS_SM4_GCM_SM3", 0x00C7: "TLS_SM4_CCM_SM3", 0xC0B4: "TLS_SHA256_SHA256", 0xC0B5: "TLS_SHA384_SHA384",
    0xC100: "TLS_GOSTR341112_256_WITH_KUZNYECHIK_CTR_OMAC", 0xC101: "TLS_GOSTR341112_256_WITH_MAGMA_CTR_OMAC",
    0xC102: "TLS_GOSTR341112_256_WITH_28147_CNT_IMIT", 0xC103: "TLS_GOSTR341112_256_WITH_KUZNYECHIK_MGM_L",
    0xC104: "TLS_GOSTR341112_256_WITH_MAGMA_MGM_L", 0xC105: "TLS_GOSTR341112_256_WITH_KUZNYECHIK_MGM_S",
    0xC106: "TLS_GOSTR341112_256_WITH_MAGMA_MGM_S", 0x1306: "TLS_AEGIS_256_SHA512", 0x1307: "TLS_AEGIS_128L_SHA256",
}
ALIASES = {0xC0AA: ["TLS_DHE_PSK_WITH_AES_128_CCM_8"], 0xC0AB: ["TLS_DHE_PSK_WITH_AES_256_CCM_8"]}
out = {}
problems = []
for code in sorted(set(reg) | set(dp) | set(MANUAL)):
    names = set(n for n in reg.get(code, ()) if n.startswith("TLS_"))
    if code in dp:
        names.add(dp[code])
    if code in MANUAL:
        if names and MANUAL[code] not in names and not (set(ALIASES.get(code, [])) & names):
            problems.append((hex(code), sorted(names), MANUAL[code]))
        name = MANUAL[code]
    else:
        if len(names) != 1:
            problems.append((hex(code), sorted(names)))
            continue
        name = names.pop()
    out["%04X" % code] = {"name": name, "aliases": ALIASES.get(code, []), "sources": [s for s, ok in (("scapy", code in reg), ("dpkt", code in dp), ("rfc", code in MANUAL)) if ok]}
print("entries", len(out), "problems", problems, file=sys.stderr)
json.dump(out, open(os.path.join(os.path.dirname(os.path.abspath(__file__)), "iana_tls_cipher_suites.json"), "w"), indent=0, sort_keys=True)
